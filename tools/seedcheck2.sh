#!/bin/bash
# tools/seedcheck2.sh <out-dir> <A|B> <prop>...   (round-2 layout: patchA.diff/demoA.py, patchB.diff/demoB.py)
set -u
OUT=$1; X=$2; shift 2
D=$(mktemp -d /tmp/seedcheck.XXXXXX)
W=$D/r
git -C /repo worktree add -q --detach "$W" HEAD || exit 2
build() { (cd "$W" && CARGO_NET_OFFLINE=true CARGO_TARGET_DIR=$D/t cargo build --lib --release --offline 2>&1 | grep -E "^error" -A5; cp $D/t/release/libgufo_snmp.so "$W/src/gufo/snmp/_fast.so"); }
rundemo() { (cd "$OUT" && PYTHONPATH=$W/src timeout 600 python3.11 demo$X.py > $D/demo.log 2>&1; echo $?); }
build
echo "== demo$X WITHOUT the change: exit $(rundemo)"; tail -1 $D/demo.log | cut -c1-200
(cd "$W" && git apply "$OUT/patch$X.diff") || { echo "patch does not apply"; }
build
echo "== demo$X WITH the change: exit $(rundemo)"; tail -2 $D/demo.log | cut -c1-200
echo "== pinned suite WITH the change (guard off)"
(cd "$W" && CARGO_NET_OFFLINE=true CARGO_TARGET_DIR=$D/t2 cargo test --offline 2>&1 | grep -E "^test result|^error" | head -3)
rm -f "$W/src/gufo/snmp/_fast.so"
for p in "$@"; do
  echo "== check $p"
  VERIF_REPO="$W" /verif/vsim check "$p" 2>/dev/null | grep -a -E "VIOLATION|oracle=|KNOWN|HARNESS|runs," | cut -c1-260
done
TD=$(VERIF_REPO="$W" python3 -c "import sys; sys.path.insert(0,'/verif'); from sim import build; print(build.target_dir())")
rm -rf "$TD"
TAG=${TD##*target-}; rm -rf "/verif/.build/bufsim-$TAG" "/verif/.build/target-bufsim-$TAG" "/verif/.build/target-miri-$TAG"
git -C /repo worktree remove --force "$W"
rm -rf "$D"
