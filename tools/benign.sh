#!/bin/bash
# tools/benign.sh [prop...]: every behaviour-preserving refactor in mutants/benign must leave every quick check silent.
cd /verif
PROPS=${@:-C01 C02 C03 C04 C05 C06 C07 C08 C09 C10 C11 C12 C13 C14 C15 C16 C17 C18 C19}
for m in mutants/benign/*.diff; do
  echo "######## benign $(basename $m .diff)"
  tools/mutcheck.sh patch /verif/$m $PROPS 2>&1 | grep -v conda
done
