#!/usr/bin/env python3
"""Regenerate MANIFEST.json from the property modules present in sim/props."""
import json
import os
import subprocess
import sys

ROOT = os.path.dirname(os.path.dirname(os.path.abspath(__file__)))
sys.path.insert(0, ROOT)

props = [json.loads(l) for l in open(os.path.join(ROOT, "properties.jsonl"))]
META = json.load(open(os.path.join(ROOT, "tools", "manifest_meta.json")))
hooks = subprocess.check_output(["git", "-C", "/repo", "log", "--format=%H %s"], text=True).splitlines()
hook_commits = [l.split()[0] for l in hooks if l.split(" ", 1)[1].startswith("verif hook")]

checks = []
na = []
for p in props:
    pid = p["id"]
    m = META["checks"].get(pid)
    if m is None or not os.path.exists(os.path.join(ROOT, "sim", "props", pid.lower() + ".py")):
        na.append({"property_id": pid, "reason": META["not_applicable"].get(pid, "check not built yet (work in progress); no claim made")})
        continue
    checks.append(
        {
            "property_id": pid,
            "quick_cmd": "./vsim check %s --tier quick" % pid,
            "thorough_cmd": "./vsim check %s --tier thorough" % pid,
            "evidence_file": "/verif/evidence/%s.json" % pid,
            "replay_cmd_template": "./vsim replay {path}",
            "engine": "vsim",
            "level_claimed": {"category": "exploration", "text": m["text"], "design_ref": m.get("design_ref", "DESIGN.md section 7 (%s)" % pid)},
            "level_note": m["note"],
            "technique": m.get("technique", "deterministic simulation with fault injection: seeded search over plans (schedules, faults, agent behaviour) executed against the real client on a simulated network/clock/entropy, judged by reference-model oracles"),
        }
    )

manifest = {
    "version": 1,
    "setup_cmd": "./vsim setup",
    "hooks": {
        "guard": "--cfg gufo_snmp_verif",
        "enable": "RUSTFLAGS='--cfg gufo_snmp_verif' cargo build --lib --release --offline (done by ./vsim on every invocation into /verif/.build/target; the staged package is /verif/.build/pkg-<hash>)",
        "baseline_off_cmd": "./vsim baseline-off",
        "source_commits": hook_commits,
        "add_only": True,
    },
    "engines": [
        {"name": "vsim", "path": "/verif/vsim", "serves_properties": [c["property_id"] for c in checks], "kind_free_text": "Python discrete-event simulator (network, clock, entropy, agent) around the real gufo.snmp package and _fast extension; forked workers; plan shrinking; replay files"},
        {"name": "bufsim", "path": "/verif/rs/src/bufsim.rs (driver: /verif/sim/bufsim.py, run by ./vsim check C17)", "serves_properties": ["C17"], "kind_free_text": "seeded operation sequences on the real Buffer/BufferPool (shadow-manifest rlib of /repo/src, guard off) against a Vec model: native, real-thread pool scenario, and under Miri with its seeded scheduler"},
    ],
    "checks": checks,
    "notes": META.get("notes", ""),
    "not_applicable": na,
}
json.dump(manifest, open(os.path.join(ROOT, "MANIFEST.json"), "w"), indent=1)
print("checks:", [c["property_id"] for c in checks], "n/a:", [x["property_id"] for x in na])
