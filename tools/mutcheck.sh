#!/bin/bash
# Sensitivity experiments on a scratch copy of /repo (never on /repo itself):
#   tools/mutcheck.sh revert <commit>  <prop>...    - revert a fix commit
#   tools/mutcheck.sh patch  <file.diff> <prop>...  - apply a patch
# Runs the pinned suite with the guard off on the scratch copy, then the quick
# checks with VERIF_REPO pointing at it; removes the copy and its build output.
set -u
mode=$1; what=$2; shift 2
D=$(mktemp -d /tmp/mutcheck.XXXXXX)
git -C /repo worktree add -q --detach "$D/r" HEAD || exit 2
cd "$D/r"
if [ "$mode" = revert ]; then
  git revert -n "$what" >/dev/null 2>&1 || { echo "revert failed"; git -C /repo worktree remove --force "$D/r"; rm -rf "$D"; exit 2; }
else
  git apply "$what" || { echo "patch failed"; git -C /repo worktree remove --force "$D/r"; rm -rf "$D"; exit 2; }
fi
echo "== pinned suite on mutated copy (guard off)"
CARGO_NET_OFFLINE=true CARGO_TARGET_DIR=$D/t cargo test --offline 2>&1 | grep -E "^test result|^error" | head -3
rc=0
for p in "$@"; do
  echo "== $p"
  VERIF_REPO="$D/r" /verif/vsim check "$p" 2>/dev/null | grep -E "VIOLATION|oracle=|KNOWN|HARNESS|runs," | cut -c1-260
done
TD=$(VERIF_REPO="$D/r" python3 -c "import sys; sys.path.insert(0,'/verif'); from sim import build; print(build.target_dir())")
rm -rf "$TD"
TAG=${TD##*target-}; rm -rf "/verif/.build/bufsim-$TAG" "/verif/.build/target-bufsim-$TAG" "/verif/.build/target-miri-$TAG"
git -C /repo worktree remove --force "$D/r"
rm -rf "$D"
