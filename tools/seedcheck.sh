#!/bin/bash
# tools/seedcheck.sh <out-dir with patch.diff + demo> "<demo command, {W} = worktree>" <prop>...
# Confirms a seeded change in a scratch worktree: demo passes without / fails with the change,
# pinned suite passes with it, then runs the given quick checks against it. Cleans up afterwards.
set -u
OUT=$1; DEMO=$2; shift 2
D=$(mktemp -d /tmp/seedcheck.XXXXXX)
W=$D/r
git -C /repo worktree add -q --detach "$W" HEAD || exit 2
build() { (cd "$W" && CARGO_NET_OFFLINE=true CARGO_TARGET_DIR=$D/t cargo build --lib --release --offline 2>&1 | grep -E "^error" -A5; cp $D/t/release/libgufo_snmp.so "$W/src/gufo/snmp/_fast.so"); }
rundemo() { (cd "$OUT" && eval "${DEMO//\{W\}/$W}" > $D/demo.log 2>&1; echo $?); }
build
echo "== demo WITHOUT the change: exit $(rundemo)"; tail -2 $D/demo.log | cut -c1-200
(cd "$W" && git apply "$OUT/patch.diff") || { echo "patch does not apply"; }
build
echo "== demo WITH the change: exit $(rundemo)"; tail -3 $D/demo.log | cut -c1-200
echo "== pinned suite WITH the change (guard off)"
(cd "$W" && CARGO_NET_OFFLINE=true CARGO_TARGET_DIR=$D/t2 cargo test --offline 2>&1 | grep -E "^test result|^error" | head -3)
rm -f "$W/src/gufo/snmp/_fast.so"
for p in "$@"; do
  echo "== check $p"
  VERIF_REPO="$W" /verif/vsim check "$p" 2>/dev/null | grep -E "VIOLATION|oracle=|KNOWN|HARNESS|runs," | cut -c1-300
done
TD=$(VERIF_REPO="$W" python3 -c "import sys; sys.path.insert(0,'/verif'); from sim import build; print(build.target_dir())")
rm -rf "$TD"
TAG=${TD##*target-}; rm -rf "/verif/.build/bufsim-$TAG" "/verif/.build/target-bufsim-$TAG" "/verif/.build/target-miri-$TAG"
git -C /repo worktree remove --force "$W"
rm -rf "$D"
