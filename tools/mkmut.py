#!/usr/bin/env python3
"""mkmut.py <name> <file> <old> <new> [<file> <old> <new> ...] - write /verif/mutants/<name>.diff
(a one-hunk source mutation of /repo at HEAD, made in a temporary worktree)."""
import os, subprocess, sys, tempfile
name = sys.argv[1]
args = sys.argv[2:]
d = tempfile.mkdtemp(prefix="mkmut.")
subprocess.check_call(["git", "-C", "/repo", "worktree", "add", "-q", "--detach", d + "/r", "HEAD"])
try:
    for i in range(0, len(args), 3):
        f, old, new = args[i:i+3]
        p = os.path.join(d, "r", f)
        s = open(p).read()
        if s.count(old) != 1:
            print("pattern count", s.count(old), "in", f); sys.exit(1)
        open(p, "w").write(s.replace(old, new))
    diff = subprocess.check_output(["git", "-C", d + "/r", "diff"], text=True)
    open("/verif/mutants/%s.diff" % name, "w").write(diff)
    print("wrote", name, len(diff.splitlines()), "lines")
finally:
    subprocess.call(["git", "-C", "/repo", "worktree", "remove", "--force", d + "/r"])
    subprocess.call(["rm", "-rf", d])
