"""C12 - USM keys are derived exactly as RFC 3414 A.2 prescribes."""

from __future__ import annotations

from .. import gen, runner, usm
from ..oracle import V
from . import v3common
from .base import Prop
from .c01 import totality

MB = 1048576
PW_LENGTHS = [1, 2, 3, 7, 8, 16, 63, 64, 65, 1000, 1024, 4096, 5000]
FN_LENGTHS = PW_LENGTHS + [MB // 2, MB // 3, MB - 1, MB, MB + 1, 2 * MB, 2 * MB + 7, 3000000]


def pw_bytes(spec):
    pat = bytes.fromhex(spec["pat"])
    n = spec["len"]
    return (pat * (n // len(pat) + 1))[:n]


def pw_spec(rng, lengths):
    pat = bytes(rng.randrange(1, 256) for _ in range(rng.choice([1, 3, 7, 11])))
    return {"pat": pat.hex(), "len": rng.choice(lengths)}


class C12(Prop):
    id = "C12"
    rule = (
        "plans: (a) v3 sessions configured with password / master / localized keys x MD5/SHA x {none, DES, AES} x engine ids of 5..32 octets "
        "(given or discovered) x password lengths {1,2,3,7,8,16,63,64,65,1000,1024,4096,5000}; the reference agent verifies every request's HMAC and "
        "decrypts with keys derived by hashlib, and the installed key is judged by whether the exchange works and the MAC matches; (b) "
        "get_master_key / get_localized_key called with password lengths incl. divisors and non-divisors of 2^20, 2^20-1, 2^20, 2^20+1, > 2^20 and "
        "engine ids of 0..32 octets, compared with the reference; (c) malformed key material (lengths 0..64, unknown algorithm and key-type codes, "
        "empty password) through User/Md5Key/... and through the _fast socket classes and set_keys directly: a session or a documented exception, "
        "never PanicException. also pass phrases that look like hex / config notation / numbers, the same octets under two key types, key and User objects shared between sessions. non-trivial = at least one derived key was compared or one malformed input tried; distinct = hash of the inputs"
    )
    quick_runs = 6000
    thorough_runs = 80000

    def families(self, tier):
        return [("session", 3), ("functions", 3), ("malformed", 3), ("two-engines", 1), ("two-users", 1)]

    def expected_counters(self, tier):
        return ["probe.session-mac-verified", "probe.session-password", "probe.session-master", "probe.session-localized", "probe.fn-master-compared", "probe.fn-localized-compared", "probe.fn-over-1MiB", "probe.fn-engine-id-empty", "probe.malformed-refused", "probe.malformed-accepted", "probe.raw-socket-ctor", "probe.set-keys"]

    def gen(self, rng, family, tier):
        if family == "two-users":
            # two sessions of one process: the same password under different digests / ciphers
            p = v3common.history_plan(rng, tier, ["md5-aes", "sha-des", "sha-aes", "md5-des", "md5", "sha"], nsess=2, identity_changes=False, ktypes=["password"], long_run=rng.randint(1, 2))
            pw = rng.choice(gen.PASSWORDS).hex()
            levels = rng.sample([("md5", 1, 2), ("sha", 2, 1), ("sha", 2, 2), ("md5", 1, 1), ("sha", 2, 0), ("md5", 1, 0)], 2)
            users = []
            for i, (_, aalg, palg) in enumerate(levels):
                u = {"name": "w%d" % i, "auth": {"alg": aalg, "type": "password", "key": pw}}
                if palg:
                    u["priv"] = {"alg": palg, "type": "password", "key": pw}
                users.append(u)
                p["sessions"][i]["user"] = u
            p["agent"]["users"] = users
            p["scripts"] = {}
            p["kind"] = "session"
            return p
        if family == "two-engines":
            p = v3common.two_engine_plan(rng, tier, ["md5", "sha", "md5-des", "sha-aes", "md5-aes", "sha-des"])
            p["kind"] = "session"
            return p
        if family == "session":
            level = rng.choice(["md5", "sha", "md5-des", "md5-aes", "sha-des", "sha-aes"])
            # auth and priv key types are chosen independently (gen.user draws one per key)
            p = v3common.history_plan(rng, tier, [level], nsess=1, identity_changes=False, ktypes=["password", "master", "localized"], long_run=rng.randint(1, 3))
            # replace the secret by one of a chosen length
            u = p["sessions"][0]["user"]
            eng = p["agent"]["engine_id"]
            same = None
            if "priv" in u and rng.random() < 0.2:
                # the very same octets as both secrets (a digest-sized string is a legal pass phrase,
                # master key and localized key alike), each under its own key type
                same = bytes(rng.randrange(256) for _ in range(16 if u["auth"]["alg"] == 1 else 20))
            for part in ("auth", "priv"):
                if part in u:
                    if same is not None:
                        u[part]["key"] = same.hex()
                        continue
                    # pass phrases that look like hex / config notation are octets like any other
                    pw = rng.choice(gen.ODD_PASSWORDS) if rng.random() < 0.25 else pw_bytes(pw_spec(rng, PW_LENGTHS))
                    alg = u["auth"]["alg"]
                    if u[part]["type"] == "password":
                        u[part]["key"] = pw.hex()
                    elif u[part]["type"] == "master":
                        u[part]["key"] = usm.password_to_key(alg, pw).hex()
                    else:
                        u[part]["key"] = usm.localize(alg, usm.password_to_key(alg, pw), bytes.fromhex(eng)).hex()
            p["agent"]["users"] = [u]
            p["scripts"] = {}
            p["kind"] = "session"
            return p
        fn_ops = []
        if family == "functions":
            shared = pw_spec(rng, PW_LENGTHS)  # the same password under both digests, in both orders
            for _ in range(rng.randint(1, 4)):
                alg = rng.choice([1, 2])
                if rng.random() < 0.35:
                    fn_ops.append({"fn": "master", "alg": alg, "pw": shared})
                    fn_ops.append({"fn": "master", "alg": 3 - alg, "pw": shared})
                elif rng.random() < 0.5:
                    odd = rng.choice(gen.ODD_PASSWORDS)
                    fn_ops.append({"fn": "master", "alg": alg, "pw": {"pat": odd.hex(), "len": len(odd)} if rng.random() < 0.2 else pw_spec(rng, FN_LENGTHS)})
                else:
                    n = rng.choice([0, 0, 1, 5, 12, 17, 32, 33, 64])
                    fn_ops.append({"fn": "localized", "alg": alg, "pw": pw_spec(rng, PW_LENGTHS), "engine": bytes(rng.randrange(256) for _ in range(n)).hex()})
        else:
            for _ in range(rng.randint(1, 4)):
                k = rng.choice(["master-empty", "localized-len", "alg-code", "ctor", "ctor", "set-keys", "user-api"])
                alg = rng.choice([0, 1, 2, 3, 5, 63, 64, 65, 66, 128, 129, 130, 192, 193, 255])
                klen = rng.choice([0, 1, 8, 15, 16, 17, 19, 20, 21, 32, 64])
                key = bytes(rng.randrange(256) for _ in range(klen)).hex()
                eng = bytes(rng.randrange(256) for _ in range(rng.choice([0, 5, 12, 32]))).hex()
                if k == "master-empty":
                    fn_ops.append({"fn": "master", "alg": rng.choice([0, 1, 2, 3, 255]), "pw": {"pat": "61", "len": rng.choice([0, 0, 1])}, "malformed": True})
                elif k == "localized-len":
                    fn_ops.append({"fn": "localized_raw", "alg": rng.choice([0, 1, 2, 3, 200]), "key": key, "engine": eng, "malformed": True})
                elif k == "alg-code":
                    fn_ops.append({"fn": "master", "alg": alg, "pw": {"pat": "6162", "len": 8}, "malformed": True})
                elif k in ("ctor", "set-keys"):
                    palg = rng.choice([0, 1, 2, 3, 64, 65, 66, 129, 130, 193, 255])
                    pk = bytes(rng.randrange(256) for _ in range(rng.choice([0, 1, 8, 15, 16, 20, 32]))).hex()
                    fn_ops.append({"fn": k, "engine": eng, "user": "u", "auth_alg": alg, "auth_key": key, "priv_alg": palg, "priv_key": pk, "malformed": True})
                else:
                    fn_ops.append({"fn": "user-api", "auth_cls": rng.choice(["md5", "sha"]), "ktype": rng.choice(["password", "master", "localized"]), "auth_key": key, "priv_cls": rng.choice([None, "des", "aes"]), "priv_ktype": rng.choice(["password", "master", "localized"]), "priv_key": bytes(rng.randrange(256) for _ in range(rng.choice([0, 1, 8, 16, 20, 40]))).hex(), "engine": eng, "malformed": True})
        return {"kind": "fn", "fn_ops": fn_ops, "sessions": [], "ops": []}

    def execute(self, plan):
        run = runner.execute({k: v for k, v in plan.items() if k != "fn_ops"})
        g = runner.gufo()
        run.fn_results = []
        for op in plan.get("fn_ops", []):
            r = {"op": op}
            try:
                if op["fn"] == "master":
                    r["ok"] = g.fast.get_master_key(op["alg"], pw_bytes(op["pw"])).hex()
                elif op["fn"] == "localized":
                    ku = usm.password_to_key(op["alg"], pw_bytes(op["pw"]))
                    r["ok"] = g.fast.get_localized_key(op["alg"], ku, bytes.fromhex(op["engine"])).hex()
                elif op["fn"] == "localized_raw":
                    r["ok"] = g.fast.get_localized_key(op["alg"], bytes.fromhex(op["key"]), bytes.fromhex(op["engine"])).hex()
                elif op["fn"] in ("ctor", "set-keys"):
                    run.sim.count("probe.raw-socket-ctor")
                    if op["fn"] == "ctor":
                        s = g.fast.SnmpV3ClientSocket("127.0.0.1:10999", bytes.fromhex(op["engine"]), op["user"], op["auth_alg"], bytes.fromhex(op["auth_key"]), op["priv_alg"], bytes.fromhex(op["priv_key"]), 0, 0, 0, 1000000)
                    else:
                        s = g.fast.SnmpV3ClientSocket("127.0.0.1:10999", bytes.fromhex(op["engine"]), "", 0, b"", 0, b"", 0, 0, 0, 1000000)
                        run.sim.count("probe.set-keys")
                        s.set_keys(op["user"], op["auth_alg"], bytes.fromhex(op["auth_key"]), op["priv_alg"], bytes.fromhex(op["priv_key"]))
                    r["ok"] = "session"
                    del s
                elif op["fn"] == "user-api":
                    KT = g.user.KeyType
                    kt = {"password": KT.Password, "master": KT.Master, "localized": KT.Localized}
                    acls = {"md5": g.user.Md5Key, "sha": g.user.Sha1Key}[op["auth_cls"]]
                    auth = acls(bytes.fromhex(op["auth_key"]), key_type=kt[op["ktype"]])
                    priv = None
                    if op["priv_cls"]:
                        pcls = {"des": g.user.DesKey, "aes": g.user.Aes128Key}[op["priv_cls"]]
                        priv = pcls(bytes.fromhex(op["priv_key"]), key_type=kt[op["priv_ktype"]])
                    user = g.user.User("u", auth_key=auth, priv_key=priv)
                    s = g.sclient.SnmpSession("127.0.0.1", port=10998, user=user, engine_id=bytes.fromhex(op["engine"]) or None, timeout=0.001)
                    r["ok"] = "session"
                    del s
            except BaseException as e:  # noqa: BLE001
                r["exc"] = runner.exc_outcome(e)
            run.fn_results.append(r)
        return run

    def check(self, run):
        out = []
        plan = run.plan
        if plan.get("kind") == "session":
            run.sim.count("probe.session-" + run.sess_cfg[0]["user"]["auth"]["type"])
            for s, res, n, ex, dec, raw, exp, deferred, tr in v3common.iter_v3_tx(run):
                cfg = run.sess_cfg[s]
                if not dec.get("m"):
                    out.append(V("C12.not-decodable", str(dec.get("error"))))
                    continue
                v = v3common.check_mac(cfg, dec, raw, deferred)
                if v is not None:
                    v.oracle = "C12.installed-auth-key-differs"
                    v.key = {"type": cfg["user"]["auth"]["type"], "alg": cfg["user"]["auth"]["alg"]}
                    out.append(v)
                elif dec["m"]["usm"]["auth"]:
                    run.sim.count("probe.session-mac-verified")
                if cfg["user"].get("priv") and not deferred and not dec.get("ok"):
                    out.append(V("C12.installed-priv-key-differs", "request does not decrypt under the reference key (%s): %s" % (cfg["user"]["priv"]["type"], dec.get("error")), type=cfg["user"]["priv"]["type"]))
            for res in run.results:
                out += totality(res, "C12")
                exc = res.get("exc")
                scripted = any(run.dgrams[d]["label"].get("custom") for ex in run.exchanges(res) for d in ex["rx"])
                if exc and not scripted and res["op"]["op"] in ("get", "refresh", "get_many") and "PySnmpAuthError" in exc["mro"]:
                    out.append(V("C12.agent-refused-keys", "%s failed with SnmpAuthError: the agent (hashlib keys) does not accept the session's keys" % res["op"]["op"]))
            return out
        for r in run.fn_results:
            op = r["op"]
            exc = r.get("exc")
            if exc and not exc["documented"]:
                import re

                out.append(V("C12.undocumented-exception[%s: %s]" % (exc["exc"], re.sub(r"[0-9]+", "N", exc["msg"])[:60]), "%s raised %s: %s" % (op["fn"], exc["exc"], exc["msg"][:120]), fn=op["fn"]))
                continue
            if op.get("malformed"):
                run.sim.count("probe.malformed-refused" if exc else "probe.malformed-accepted")
                if op["fn"] == "master" and op["pw"]["len"] == 0 and not exc and op["alg"] & 0x3F in (1, 2):
                    out.append(V("C12.empty-password-accepted", "get_master_key(%d, b'') returned %s" % (op["alg"], r.get("ok"))))
                if op["fn"] == "localized_raw" and not exc and op["alg"] in (1, 2) and len(op["key"]) // 2 != usm.KEYLEN[op["alg"]]:
                    out.append(V("C12.wrong-size-key-accepted", "get_localized_key(%d, %d-octet key) returned %s" % (op["alg"], len(op["key"]) // 2, r.get("ok"))))
                if op["fn"] in ("ctor", "set-keys") and not exc:
                    a = op["auth_alg"]
                    if a & 0x3F in (1, 2):
                        want = usm.KEYLEN[a & 0x3F]
                        kl = len(op["auth_key"]) // 2
                        if (a & 0xC0 in (0x40, 0x80) and kl != want) or (a & 0xC0 == 0 and kl == 0):
                            out.append(V("C12.wrong-size-key-accepted", "%s accepted auth_alg=%d with a %d-octet key" % (op["fn"], a, kl)))
                continue
            if exc:
                out.append(V("C12.valid-input-refused", "%s(%r) raised %s" % (op["fn"], {k: v for k, v in op.items() if k != "fn"}, exc["exc"])))
                continue
            if op["fn"] == "master":
                run.sim.count("probe.fn-master-compared")
                if op["pw"]["len"] > MB:
                    run.sim.count("probe.fn-over-1MiB")
                want = usm.password_to_key(op["alg"], pw_bytes(op["pw"])).hex()
                if r["ok"] != want:
                    out.append(V("C12.master-key-differs", "get_master_key(alg %d, %d-octet password) = %s, RFC 3414 A.2 gives %s" % (op["alg"], op["pw"]["len"], r["ok"], want), alg=op["alg"]))
            elif op["fn"] == "localized":
                run.sim.count("probe.fn-localized-compared")
                if not op["engine"]:
                    run.sim.count("probe.fn-engine-id-empty")
                ku = usm.password_to_key(op["alg"], pw_bytes(op["pw"]))
                want = usm.localize(op["alg"], ku, bytes.fromhex(op["engine"])).hex()
                if r["ok"] != want:
                    out.append(V("C12.localized-key-differs", "get_localized_key(alg %d, engine id %s) = %s, reference %s" % (op["alg"], op["engine"], r["ok"], want), alg=op["alg"]))
        return out

    def abstract(self, run):
        import hashlib
        import json

        return hashlib.sha256(json.dumps(run.plan.get("fn_ops") or run.plan.get("sessions"), sort_keys=True).encode()).hexdigest()[:16]

    def nontrivial(self, run):
        return True


PROP = C12()
