"""C18 - a request never outlives its timeout."""

from __future__ import annotations

from .. import gen, oracle
from ..oracle import MATCH, V
from .base import Prop, community_session, v3_setup
from .c04 import _compare, _short

SLACK_NS = 12_000_000  # scheduling slack conceded by the statement: SO_RCVTIMEO is rounded up to a kernel jiffy (4-10 ms) when the remaining time is re-armed
MARGIN_NS = 2_000  # no arrival is generated this close to a deadline


class C18(Prop):
    id = "C18"
    rule = (
        "plans: one or two sessions {v1, v2c, v3} x {sync, async} with a random timeout T (50 ms .. 10 s); each get() is answered by k = 0..12 "
        "well-formed but non-matching datagrams (stale / foreign request-id, community, user, msgID) spaced closer than T, optionally followed by "
        "the matching reply before (>= 2 us) or after the deadline; silent agent included. oracle on the virtual clock: with send instant t, a "
        "match enqueued before t+T is delivered; otherwise TimeoutError and the call returns by t+T+12 ms (kernel jiffy rounding of a re-armed SO_RCVTIMEO is conceded). also: floods of 1030..5000 strays inside one wait, socket errors (EINTR, ECONNREFUSED, EHOSTUNREACH) while waiting (surfacing as OSError is in order, lateness is not), odd timeouts (5 ms, 123.456789 ms, 0.9999995 s, 1 h). non-trivial = at least one stray datagram "
        "was consumed by a pending call or the agent was silent; distinct = abstract trace + (k, match position) per call"
    )
    quick_runs = 40000
    thorough_runs = 600000

    def families(self, tier):
        return [("sync", 3), ("async", 2), ("two-sessions", 1)]

    def expected_counters(self, tier):
        return ["probe.strays-consumed", "probe.strays-span-beyond-T", "probe.match-before-deadline", "probe.match-after-deadline", "probe.silent", "probe.return-time-checked", "probe.many-strays", "probe.refresh-checked", "fault.slow-client"]

    def gen(self, rng, family, tier):
        ver = rng.choice(["v1", "v2c", "v3"])
        agent = {"mib": gen.mib(rng, n=3), "communities": [], "stamp": True}
        if ver == "v3":
            a, sess = v3_setup(rng, rng.choice(["noauth", "md5", "sha-aes"]), discover=False, ktypes=["localized"])
            agent.update(a)
            agent["time_window"] = False
        else:
            sess = community_session(rng, ver)
            agent["communities"] = [sess["community"]]
        T = rng.choice([50_000_000, 200_000_000, 1_000_000_000, 1_500_000_000, 2_500_000_000, 10_000_000_000, 50_000_000, 1_000_000_000, 5_000_000, 123_456_789, 999_999_500, 3_600_000_000_000, 7_200_000_000_000, 86_400_000_000_000, 500, 999, 1_000, 1_500, 900_000, 0])
        if T == 0 and family == "two-sessions":
            T = 50_000_000
        sess["timeout_ns"] = T
        if family == "two-sessions":
            # two sessions of one process with different timeouts, each seeing stray datagrams
            family = rng.choice(["sync", "sync", "async"])
            sess2 = dict(sess)
            sess2["timeout_ns"] = rng.choice([x for x in (50_000_000, 400_000_000, 2_000_000_000) if x != T])
            ops, scripts = [], {}
            oids = [r[0] for r in agent["mib"]] or ["1.3.6.1.2.1.1.1.0"]
            for opid in range(1, rng.randint(3, 6)):
                s_ = rng.choice([0, 1])
                Ts = T if s_ == 0 else sess2["timeout_ns"]
                ops.append({"id": opid, "s": s_, "op": "get", "oid": rng.choice(oids)})
                items = []
                t = 0
                for _ in range(rng.randint(1, 3)):
                    t += rng.randrange(Ts // 10, Ts // 3) | 1
                    items.append({"k": "genuine", "rewrite": {"request-id": "xor1"}, "delay_ns": t})
                if rng.random() < 0.5:
                    items.append({"k": "genuine", "delay_ns": (t + rng.randrange(Ts // 10, Ts // 3)) | 1})
                else:
                    items.append({"k": "none"})
                scripts["%d:1" % opid] = {"replies": items}
            return {"flavour": family, "agent": agent, "sessions": [sess, sess2], "ops": ops, "scripts": scripts, "latency_ns": 1_000_001}
        oids = [r[0] for r in agent["mib"]] or ["1.3.6.1.2.1.1.1.0"]
        ops, scripts = [], {}
        any_flood = False
        for opid in range(1, rng.randint(1, 3) + 1):
            if ver == "v3" and sess["user"].get("auth") and rng.random() < 0.3:
                ops.append({"id": opid, "s": 0, "op": "refresh"})  # one exchange: engine id given, auth configured
            else:
                ops.append({"id": opid, "s": 0, "op": "get", "oid": rng.choice(oids)})
            k = rng.choice([0, 0, 1, 2, 3, 5, 8, 12])
            tiny = T < 20 * MARGIN_NS  # sub-millisecond timeouts: no room for arrivals "well before the deadline"
            if tiny:
                k = 0
            items = []
            t = 0
            flood = 0
            if rng.random() < 0.012 and T >= 200_000_000:
                # a flood: more than a thousand well-formed strays inside one wait, then the answer
                flood = rng.choice([1030, 1500, 2500, 5000])
                any_flood = True
                k = 0
                gap = max(1000, (T // 2) // flood) | 1
                items.append({"k": "genuine", "rewrite": {"request-id": "xor1"}, "delay_ns": 1001, "copies": flood, "copy_gap_ns": gap})
            for _ in range(k):
                t += rng.randrange(T // 20, T - T // 10) | 1
                if ver == "v3":
                    rw = rng.choice([{"request-id": "xor1"}, {"msg-id": "xor1"}, {"user": b"other".hex()}, {"request-id": "plus1"}])
                else:
                    rw = rng.choice([{"request-id": "xor1"}, {"request-id": "prev"}, {"community": b"nobody".hex()}, {"request-id": "zero"}])
                items.append({"k": "genuine", "rewrite": rw, "delay_ns": t})
            if k and not flood and rng.random() < 0.08:
                # after the strays something undecodable: the call ends with SnmpDecodeError, and the
                # session's timeout must be back to normal for the calls that follow
                t += rng.randrange(T // 20, T // 4) | 1
                if t < T - MARGIN_NS:
                    items.append(rng.choice([{"k": "raw", "hex": "30" + "ff" * rng.randint(1, 6), "delay_ns": t}, {"k": "genuine", "outer": [{"op": "truncate", "n": rng.randrange(1, 30)}], "delay_ns": t}]))
            if rng.random() < 0.15 and not tiny:
                # a stray in the last millisecond before the deadline
                items.append({"k": "genuine", "rewrite": {"request-id": "xor1"}, "delay_ns": (T - rng.choice([800_000, 500_000, 300_000, 100_000, 20_000, 1_500, 900, 500, 100, 2])) | 1})
            if k and rng.random() < 0.3:
                # strays just after the deadline (inside a jiffy-rounded re-armed wait)
                for _ in range(rng.randint(1, 2)):
                    items.append({"k": "genuine", "rewrite": {"request-id": "xor1"}, "delay_ns": T + rng.choice([1_001, 300_001, 900_001, 2_000_001, 3_500_001])})
            fate = rng.choice(["before", "before", "after", "never", "never"])
            if flood:
                fate = "before"
            if tiny and fate == "before":
                fate = "never"
            if fate == "before" and k and not flood and rng.random() < 0.12 and ops[-1]["op"] == "get":
                # the matching reply is one get() cannot present (two varbinds: SnmpError) - it ends the call
                # all the same, and leaves the session's timeout as it was
                d = rng.randrange(t + 1001, max(t + 1002, T - MARGIN_NS)) | 1
                if d < T - MARGIN_NS:
                    o = ops[-1]["oid"]
                    items.append({"k": "custom", "pdu": "response", "varbinds": [[o, ["int", 1]], [o + ".1", ["int", 2]]], "delay_ns": d})
                    fate = "done"
            if fate == "before":
                # anywhere before the overall deadline, also after some strays
                lo = 1001 if not flood else 1001 + flood * gap + 1
                d = rng.randrange(lo, T - MARGIN_NS) | 1
                if d >= T - MARGIN_NS:
                    d = T - MARGIN_NS - 1
                items.append({"k": "genuine", "delay_ns": d})
            elif fate == "after":
                items.append({"k": "genuine", "delay_ns": (T + MARGIN_NS + rng.randrange(1, max(2, T))) | 1})
            elif fate != "done":
                items.append({"k": "none"})
            if fate != "before" and not flood and not tiny and rng.random() < 0.06:
                # the blocking receive is interrupted (EINTR: a signal handler ran) or fails once while the
                # call waits: raising OSError there is in order, waiting on past the deadline is not
                for _ in range(rng.choice([1, 1, 2, 4])):
                    items.insert(0, {"k": "sockerr", "errno": rng.choice([4, 4, 4, 111, 113]), "delay_ns": rng.randrange(T // 10, T - T // 10) | 1})
            scripts["%d:1" % opid] = {"replies": items}
            if rng.random() < 0.5:
                ops.append({"op": "idle", "s": 0, "ns": T * 3 + 1})
        cost = rng.choice([0, 0, 0, 1_001, 700_001, 5_000_001])
        if any_flood:
            cost = 0
        if cost:
            # keep "before the deadline" matches clear of the time the slow client spends on strays
            for sc in scripts.values():
                g = sc["replies"][-1]
                if g.get("k") in ("genuine", "custom") and not g.get("rewrite") and g["delay_ns"] < T:
                    g["delay_ns"] = max(1001, min(g["delay_ns"], T - MARGIN_NS - 16 * cost)) | 1
        return {"flavour": family, "agent": agent, "sessions": [sess], "ops": ops, "scripts": scripts, "latency_ns": 1_000_001, "recv_cost_ns": cost}

    def check(self, run):
        out = []
        enq = {ev[3]: ev[2] for ev in run.sim.hist if ev[0] == "enq"}
        # datagram ids consumed before each call started (history order)
        consumed_before = {}
        seen = set()
        for ev in run.sim.hist:
            if ev[0] == "call":
                consumed_before[ev[2]] = set(seen)
            elif ev[0] == "rx":
                seen.add(ev[3])
        shape = []
        for res in run.results:
            if res["op"]["op"] not in ("get", "refresh"):
                continue
            if res.get("step_limit"):
                out.append(V("C18.never-returns", "%s kept polling the socket without letting time pass: the call cannot time out" % res["op"]["op"], flavour=run.plan["flavour"]))
                continue
            is_refresh = res["op"]["op"] == "refresh"
            if is_refresh:
                run.sim.count("probe.refresh-checked")
            exs = run.exchanges(res)
            if len(exs) != 1:
                continue
            ex = exs[0]
            s = res["s"]
            T = run.sess_cfg[s]["timeout_ns"]
            t_tx = ex["t"]
            deadline = t_tx + T
            pending = run.wire_dec[(s, ex["serial"])]
            # every datagram available to this call that matches the pending request (by ids alone),
            # with the instant it became available: left in the queue by earlier calls, or arriving later
            match_arrivals = []
            strays_before = 0
            for did, d in run.dgrams.items():
                if d["s"] != s or did not in enq or did in consumed_before.get(res["i"], ()):
                    continue
                v = oracle.classify(run.sess_cfg[s], pending, d["label"])
                at = max(enq[did], t_tx)
                if v == MATCH:
                    match_arrivals.append((at, d["label"]))
                elif v == oracle.SKIP and at <= deadline:
                    strays_before += 1
            match_arrivals.sort(key=lambda x: x[0])
            run.sim.count("probe.return-time-checked")
            if strays_before:
                run.sim.count("probe.strays-consumed")
            if strays_before >= 5:
                run.sim.count("probe.many-strays")
            cost = run.plan.get("recv_cost_ns", 0)
            slack = SLACK_NS + cost * (len(ex["rx"]) + 1)
            in_time = [m for m in match_arrivals if m[0] <= deadline - MARGIN_NS - cost * 15]
            shape.append((strays_before, "in" if in_time else ("late" if match_arrivals else "none")))
            if any(run.dgrams[d]["label"].get("wf") is not True and run.dgrams[d]["label"].get("errno") is None for d in ex["rx"]):
                # an undecodable datagram was consumed: SnmpDecodeError (or whatever C01 allows) is in order,
                # only lateness is judged here
                run.sim.count("probe.undecodable-during-wait")
                if res["t1"] - deadline > slack:
                    out.append(V("C18.returned-late", "call returned %.6f s after the request; timeout is %.3f s" % ((res["t1"] - t_tx) / 1e9, T / 1e9), flavour=run.plan["flavour"]))
                continue
            sockerr = any(run.dgrams[d]["label"].get("errno") is not None for d in ex["rx"])
            if sockerr and "exc" in res and "OSError" in res["exc"]["mro"]:
                # an injected socket error surfaced (ECONNREFUSED is reported as TimeoutError by design):
                # in order, as long as the call did not wait on past the deadline
                run.sim.count("probe.socket-error-during-wait")
                if res["t1"] - deadline > slack:
                    out.append(V("C18.returned-late", "%s raised %.6f s after the request; timeout is %.3f s" % (res["exc"]["exc"], (res["t1"] - t_tx) / 1e9, T / 1e9), flavour=run.plan["flavour"]))
                continue
            if in_time:
                run.sim.count("probe.match-before-deadline")
                if in_time[0][0] - t_tx > T // 2 and strays_before:
                    run.sim.count("probe.strays-span-beyond-T")
                kind_, label_, _ = oracle.exchange_verdict(run, s, ex)
                first = label_ if kind_ == MATCH else in_time[0][1]
                exp = ("value", None) if is_refresh else oracle.expect_get(first)
                for v in _compare(res, exp, "matching reply arrived %.6f s after the request (timeout %.3f s, %d stray datagrams first)" % ((in_time[0][0] - t_tx) / 1e9, T / 1e9, strays_before)):
                    v.oracle = "C18.match-in-time-not-delivered"
                    v.key = {"flavour": run.plan["flavour"]}
                    out.append(v)
                continue
            if match_arrivals:
                run.sim.count("probe.match-after-deadline")
            else:
                run.sim.count("probe.silent")
            late = res["t1"] - deadline
            if "exc" in res and oracle.exc_is(res["exc"], "TimeoutError"):
                if late > slack:
                    out.append(V("C18.returned-late", "TimeoutError raised %.6f s after the request; timeout is %.3f s (%d stray datagrams)" % ((res["t1"] - t_tx) / 1e9, T / 1e9, strays_before), flavour=run.plan["flavour"]))
            elif "ok" in res:
                if late > slack:
                    out.append(V("C18.returned-late", "call returned a value %.6f s after the request; timeout is %.3f s (%d stray datagrams, match arrived at %.6f s)" % ((res["t1"] - t_tx) / 1e9, T / 1e9, strays_before, (match_arrivals[0][0] - t_tx) / 1e9 if match_arrivals else -1), flavour=run.plan["flavour"]))
            elif oracle.exchange_verdict(run, s, ex)[0] == MATCH and not is_refresh and oracle.expect_get(oracle.exchange_verdict(run, s, ex)[1])[0] == "exc":
                # a matching reply did reach the call (in the grey zone near the deadline that nothing is
                # demanded about) and it is one that get() answers with an exception: in order unless late
                if late > slack:
                    out.append(V("C18.returned-late", "%s raised %.6f s after the request; timeout is %.3f s" % (res["exc"]["exc"], (res["t1"] - t_tx) / 1e9, T / 1e9), flavour=run.plan["flavour"]))
            elif T == 0 and "BlockingIOError" in res["exc"]["mro"]:
                # timeout 0 = a non-blocking session: "nothing there yet" is what a zero wait amounts to
                run.sim.count("probe.zero-timeout")
                if late > slack:
                    out.append(V("C18.returned-late", "BlockingIOError raised %.6f s after the request; timeout is 0" % ((res["t1"] - t_tx) / 1e9), flavour=run.plan["flavour"]))
            else:
                out.append(V("C18.wrong-exception", "no matching reply within the timeout: expected TimeoutError, got %s" % _short(res), exc=res["exc"]["exc"]))
            if res["t1"] < deadline - MARGIN_NS and "exc" in res and oracle.exc_is(res["exc"], "TimeoutError"):
                out.append(V("C18.timed-out-early", "TimeoutError %.6f s after the request, timeout is %.3f s" % ((res["t1"] - t_tx) / 1e9, T / 1e9), flavour=run.plan["flavour"]))
        run.c18 = shape
        return out

    def abstract(self, run):
        from ..engine import abstract_trace

        return abstract_trace(run) + "|%r" % (getattr(run, "c18", None),)

    def nontrivial(self, run):
        return any(k > 0 or m == "none" for k, m in getattr(run, "c18", []))


PROP = C18()
