"""C16 - decoding an element reads exactly its declared extent (seam-visible projection)."""

from __future__ import annotations

from .. import ber, gen, oracle, runner, snmp
from ..oracle import MATCH, REJECT, V
from .base import Prop, community_session, v3_setup
from .c04 import _short

KINDS = gen.DATA_KINDS


class C16(Prop):
    id = "C16"
    rule = (
        "three fault kinds whose verdict is known by construction, injected into otherwise matching replies (v1/v2c/v3 plain, auth, DES, AES; sync "
        "and async): (pad) 1-60 arbitrary octets appended after the top-level message => never delivered, SnmpDecodeError; (length-past-parent) the "
        "length field of an inner element at any nesting level (global header, security parameters, USM sequence, scoped PDU, PDU, varbind list, "
        "varbind, name, value) is raised to run 1..N octets past its enclosing element, before signing/encryption => never delivered; (parent-shortened) a constructed element at any level is declared 1-2 octets shorter than its contents, so that its last child runs past it => never delivered; (inner-junk) the same reply is sent twice with different octets inserted after one inner element => identical outcome; (follower) "
        "the same varbind k is sent twice with different following varbinds / junk after its value inside the varbind => the value delivered for k "
        "is identical and equals the reference denotation, for every value type incl. all REAL forms. also: elements with no contents octets at all followed by different junk - the deliveries must agree. non-trivial = a tampered datagram was "
        "consumed; distinct = abstract trace + (fault, tampered element, value type)"
    )
    quick_runs = 30000
    thorough_runs = 400000

    def families(self, tier):
        return [("pad", 2), ("length-past-parent", 4), ("follower", 4), ("parent-shortened", 3), ("inner-junk", 2), ("int-padded", 2)]

    def expected_counters(self, tier):
        return ["fault.outer.pad", "fault.inner.len_past_parent", "probe.pad-rejected", "probe.past-parent-rejected", "probe.follower-compared", "probe.follower-real", "probe.junk-after-value", "probe.tampered.value", "probe.tampered.name", "probe.tampered.varbind", "probe.tampered.varbinds", "probe.tampered.pdu", "probe.tampered.scoped-pdu", "probe.tampered.usm", "probe.tampered.global", "probe.parent-shortened", "probe.inner-junk-compared", "probe.int-padded-compared"]

    def gen(self, rng, family, tier):
        flavour = rng.choice(["sync", "async"])
        cfgname = rng.choice(["v1", "v2c", "v2c", "v3-noauth", "v3-md5", "v3-sha-aes", "v3-md5-des"])
        agent = {"mib": [], "communities": []}
        if cfgname.startswith("v3"):
            a, sess = v3_setup(rng, cfgname[3:], discover=False, ktypes=["localized"])
            agent.update(a)
            agent["time_window"] = False
        else:
            sess = community_session(rng, cfgname)
            agent["communities"] = [sess["community"]]
        sess["timeout_ns"] = 100_000_000
        ops, scripts = [], {}
        kinds = [k for k in KINDS]
        if family == "follower":
            name_k = gen.oid_text(gen.oid(rng))
            val_k = gen.value(rng, kinds)
            degenerate = rng.random() < 0.12
            if degenerate:
                # an element with no contents octets at all (for most types not a legal encoding): whatever
                # the decoder makes of it, it must not make it out of the octets that follow
                val_k = ["rawtlv", bytes([rng.choice([0x02, 0x41, 0x42, 0x43, 0x46, 0x47, 0x40, 0x04, 0x06, 0x01, 0x09, 0x44]), 0]).hex()]
            others = [o for o in (gen.oid_text(gen.oid(rng)) for _ in range(6)) if o != name_k][:4] or [name_k + ".1"]
            for opid in (1, 2):
                ops.append({"id": opid, "s": 0, "op": "get_many", "oids": [name_k] + others})
                before = [[rng.choice(others), gen.value(rng, gen.SAFE_KINDS)] for _ in range(rng.randint(0, 2))] if opid == 1 else None
                if opid == 2:
                    before = scripts["1:1"]["replies"][0]["varbinds"][: scripts["1:1"]["k_index"]]
                k_opts = {}
                if rng.random() < (0.7 if degenerate else 0.3):
                    k_opts["extra_hex"] = bytes(rng.choice([0x00, 0x30, 0x31, 0x2E, 0x39, 0xFF, 0x05, 0x80]) for _ in range(rng.randint(1, 6))).hex()
                after = []
                for _ in range(rng.randint(0, 3)):
                    # followers whose first octets look like digits / REAL continuation
                    o = rng.choice(others)
                    after.append([o, rng.choice([["octets", b"0123456789.e-5".hex()], ["int", rng.randrange(2**31)], gen.value(rng, gen.SAFE_KINDS), ["real", gen.real_content(rng)]])])
                vbs = [list(x) for x in before] + [[name_k, val_k, k_opts]] + after
                scripts["%d:1" % opid] = {"replies": [{"k": "custom", "pdu": "response", "varbinds": vbs}], "k_index": len(before)}
            return {"flavour": flavour, "agent": agent, "sessions": [sess], "ops": ops, "scripts": scripts, "latency_ns": 1001, "fam": family, "k": [name_k, val_k]}
        if family == "int-padded":
            # the same reply clean and with one header INTEGER carrying redundant leading octets
            names = [gen.oid_text(gen.oid(rng))]
            vbs = [[names[0], gen.value(rng, gen.SAFE_KINDS)]]
            where = rng.choice(["request-id", "request-id", "error-status", "error-index", "version", "msg-id", "max-size", "sec-model", "usm-boots", "usm-time"])
            for opid in (1, 2):
                ops.append({"id": opid, "s": 0, "op": "get_many", "oids": names})
                item = {"k": "custom", "pdu": "response", "varbinds": vbs}
                if opid == 2:
                    item["inner"] = [{"op": "int_pad", "name": where, "k": rng.choice([1, 1, 2, 3, 4])}]
                scripts["%d:1" % opid] = {"replies": [item]}
            return {"flavour": flavour, "agent": agent, "sessions": [sess], "ops": ops, "scripts": scripts, "latency_ns": 1001, "fam": family, "where": where}
        if family == "inner-junk":
            # the same reply twice, with different octets inserted after one inner element
            names = [gen.oid_text(gen.oid(rng)) for _ in range(rng.randint(1, 2))]
            vbs = [[o, gen.value(rng, kinds)] for o in names]
            # only after the LAST child of a parent: anywhere else the inserted octets simply are the next element
            where = rng.choice(["pdu", "varbinds", "value", "scoped-pdu", "usm", "sec-model"])
            names = names[:1]
            vbs = vbs[:1]
            for opid in (1, 2):
                ops.append({"id": opid, "s": 0, "op": "get_many", "oids": names})
                junk = bytes(rng.randrange(256) for _ in range(rng.randint(1, 12))).hex()
                scripts["%d:1" % opid] = {"replies": [{"k": "custom", "pdu": "response", "varbinds": vbs, "inner": [{"op": "insert_after", "name": where, "hex": junk}]}]}
            return {"flavour": flavour, "agent": agent, "sessions": [sess], "ops": ops, "scripts": scripts, "latency_ns": 1001, "fam": family, "where": where}
        for opid in range(1, rng.randint(2, 4)):
            names = [gen.oid_text(gen.oid(rng)) for _ in range(rng.randint(1, 3))]
            if rng.random() < 0.5:
                ops.append({"id": opid, "s": 0, "op": "get", "oid": names[0]})
                names = names[:1]
            else:
                ops.append({"id": opid, "s": 0, "op": "get_many", "oids": names})
            item = {"k": "custom", "pdu": "response", "varbinds": [[o, gen.value(rng, kinds)] for o in names]}
            if family == "pad":
                item["outer"] = [{"op": "pad", "hex": bytes(rng.choice([0, 0x30, 0xFF, rng.randrange(256)]) for _ in range(rng.randint(1, 60))).hex()}]
            elif family == "parent-shortened":
                # a constructed element declared 1-2 octets shorter than its contents: its last child now runs
                # past the enclosing element
                item["inner"] = [{"op": "len", "name": rng.choice(["message", "pdu", "pdu", "varbinds", "varbind", "scoped-pdu", "usm", "sec-params", "global"]), "delta": -rng.choice([1, 1, 2])}]
            else:
                item["inner"] = [{"op": "len_past_parent", "node": rng.randrange(0, 64), "delta": rng.choice([1, 1, 2, 5, 100, 1000, 2**16, 2**32, 2**32 + 1, 2**40, 2**56])}]
                if rng.random() < 0.2:
                    # the true length plus 2^16 / 2^32 / 2^64: equal to it after truncation to 16 / 32 / 64 bits
                    item["inner"] = [{"op": "len_form", "node": rng.randrange(1, 64), "form": rng.choice(["alias64", "alias64", "alias32", "alias16"])}]
            scripts["%d:1" % opid] = {"replies": [item, {"k": "genuine", "delay_ns": 50_001}] if rng.random() < 0.3 else [item]}
        return {"flavour": flavour, "agent": agent, "sessions": [sess], "ops": ops, "scripts": scripts, "latency_ns": 1001, "fam": family}

    def check(self, run):
        out = []
        fam = run.plan["fam"]
        shapes = []
        if fam == "follower":
            name_k, val_k = run.plan["k"]
            want = snmp.denote(val_k) if snmp.is_data(val_k) and val_k[0] != "rawtlv" else None
            got = []
            for res in run.results:
                exs = run.exchanges(res)
                if len(exs) != 1:
                    continue
                kind, label, _ = oracle.exchange_verdict(run, 0, exs[0])
                vb = next((v for v in label["varbinds"] if v[0] == name_k), None) if label else None
                junk = any(len(v) > 2 and v[2].get("extra_hex") for v in run.plan["scripts"]["%d:1" % res["op"]["id"]]["replies"][0]["varbinds"])
                if vb is None:
                    continue  # (a shrunk plan without varbind k is not a follower experiment any more)
                if junk:
                    run.sim.count("probe.junk-after-value")
                if "ok" in res:
                    d = runner.denorm(res["ok"])
                    got.append(d.get(name_k, "<absent>"))
                elif junk or not snmp.is_data(val_k) or val_k[0] == "rawtlv":
                    got.append("<refused>")
                else:
                    out.append(V("C16.wellformed-reply-refused", "reply with followers refused: %s" % _short(res), kind=val_k[0]))
                    got.append("<refused>")
            shapes.append(("follower", val_k[0]))
            if val_k[0] == "real":
                run.sim.count("probe.follower-real")
            vals = [g for g in got if g not in ("<refused>",)]
            run.sim.count("probe.follower-compared")
            if val_k[0] == "rawtlv":
                run.sim.count("probe.follower-degenerate")
                if len({repr(g) for g in vals}) > 1:
                    out.append(V("C16.value-depends-on-followers", "%s encoded as %s (no contents) delivered as %r depending on the following bytes" % (name_k, val_k[1], vals), kind="empty-" + val_k[1][:2]))
                run.c16 = shapes
                return out
            for g in vals:
                if want is None:
                    if g != "<absent>":
                        out.append(V("C16.value-depends-on-followers", "%s=%r delivered as %r" % (name_k, val_k, g), kind=val_k[0]))
                elif g == "<absent>" or not snmp.same_value(g, want):
                    out.append(V("C16.value-depends-on-followers", "%s encoded as %r delivered as %r with one set of following bytes (values seen: %r)" % (name_k, val_k, g, got), kind=val_k[0]))
                    break
            run.c16 = shapes
            return out
        if fam == "int-padded":
            outs = []
            padded = False
            for res in run.results:
                labs = [run.dgrams[d]["label"] for ex in run.exchanges(res) for d in ex["rx"]]
                padded = padded or any(l.get("why") == "int-padded" for l in labs)
                outs.append(res.get("ok") if "ok" in res else ("exc", res["exc"]["exc"]))
            if len(outs) == 2 and padded:
                run.sim.count("probe.int-padded-compared")
                shapes.append(("int-padded", run.plan["where"]))
                # the padded INTEGER denotes the same value: same outcome, or refused as non-minimal -
                # never a different reading (which would show as a dropped reply or another value)
                if outs[1] != outs[0] and outs[1] != ("exc", "PySnmpDecodeError"):
                    out.append(V("C16.padded-integer-read-differently", "reply with a zero-padded %s: clean outcome %r, padded outcome %r" % (run.plan["where"], outs[0], outs[1]), where=run.plan["where"]))
            run.c16 = shapes
            return out
        if fam == "inner-junk":
            outs = []
            for res in run.results:
                consumed = [run.dgrams[d]["label"] for ex in run.exchanges(res) for d in ex["rx"]]
                if not consumed or not str(consumed[0].get("why", "")).startswith("junk-after-"):
                    continue
                outs.append(res.get("ok") if "ok" in res else ("exc", res["exc"]["exc"]))
            if len(outs) == 2:
                run.sim.count("probe.inner-junk-compared")
                shapes.append(("inner-junk", run.plan["where"]))
                if outs[0] != outs[1]:
                    out.append(V("C16.outcome-depends-on-following-bytes", "identical reply, different octets after the %s element: %r vs %r" % (run.plan["where"], outs[0], outs[1]), where=run.plan["where"]))
            run.c16 = shapes
            return out
        for res in run.results:
            exs = run.exchanges(res)
            if len(exs) != 1:
                continue
            ex = exs[0]
            consumed = [run.dgrams[d]["label"] for d in ex["rx"]]
            if not consumed:
                continue
            first = consumed[0]
            why = first.get("why")
            if why not in ("padded", "length-past-parent", "length-tampered"):
                continue
            if why == "length-tampered":
                run.sim.count("probe.parent-shortened")
            shapes.append((why, first.get("tampered")))
            if first.get("tampered"):
                t = first["tampered"]
                grp = t if t in ("value", "name", "varbind", "varbinds", "pdu", "scoped-pdu") else ("usm" if t.startswith("usm") or t == "sec-params" else "global")
                run.sim.count("probe.tampered." + grp)
            if why == "length-past-parent" and first.get("encrypted") and first.get("tampered") == "scoped-pdu":
                # DES pads the plaintext: a scoped PDU declared a few octets longer still lies inside its
                # enclosing element (the decrypted msgData), so nothing is demanded
                continue
            delivered_tampered = "ok" in res and len(ex["rx"]) == 1
            if delivered_tampered:
                out.append(V("C16.tampered-datagram-delivered", "%s datagram (element %s) was delivered: %r" % (why, first.get("tampered"), res["ok"]), why=why, element=first.get("tampered")))
                continue
            if why == "length-tampered" and first.get("encrypted") and first.get("tampered") == "scoped-pdu":
                continue
            encrypted_inner = first.get("encrypted") and first.get("tampered") in ("scoped-pdu", "pdu", "varbinds", "varbind", "name", "value", "request-id", "error-status", "error-index", "ctx-engine-id", "ctx-name")
            if why == "padded":
                run.sim.count("probe.pad-rejected")
            else:
                run.sim.count("probe.past-parent-rejected")
            if encrypted_inner:
                # inside the ciphertext: rejected by being dropped (timeout) or by a decode error
                if len(ex["rx"]) > 1 and "ok" in res:
                    continue  # the genuine reply that followed was delivered
                continue
            if not ("exc" in res and oracle.exc_is(res["exc"], "SnmpDecodeError")):
                out.append(V("C16.tampered-not-rejected", "%s datagram (element %s) ended the call with %s instead of SnmpDecodeError" % (why, first.get("tampered"), _short(res)), why=why, element=first.get("tampered")))
        run.c16 = shapes
        return out

    def abstract(self, run):
        from ..engine import abstract_trace

        return abstract_trace(run) + "|%r" % (getattr(run, "c16", None),)

    def nontrivial(self, run):
        return bool(getattr(run, "c16", None))


PROP = C16()
