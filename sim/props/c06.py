"""C06 - a walk never leaves its subtree, never goes backwards, always ends."""

from __future__ import annotations

from .. import ber, gen, oracle, runner, snmp
from ..oracle import MATCH, V
from .base import Prop, community_session, v3_setup

LIMIT = 80


def universe(rng):
    base = gen.oid(rng, prefix=(1, 3, 6, 1), min_extra=1, max_extra=3, small=0.5)
    top = None
    if rng.random() < 0.15:
        top = rng.choice([(0, 0), (0, 39), (1, 0), (1, 39), (2, 0), (2, 39)])
        base = gen.oid(rng, prefix=top, min_extra=0, max_extra=2, small=0.5)
    inside = set()
    for _ in range(rng.randint(2, 7)):
        inside.add(base + tuple(rng.choice([0, 1, 2, 3, 127, 128, 16383, 16384]) for _ in range(rng.randint(1, 2))))
    if rng.random() < 0.12:
        # sub-identifiers no SNMP OID can have (beyond 2^32-1) but BER can carry: k * 2^32 + a next to a
        for o in list(inside)[:3]:
            inside.add(o[:-1] + (o[-1] + rng.choice([2**32, 2**33, 2**32 * 3, 2**63, 2**64, 2**64 + 2**32]),))
    inside = sorted(inside)
    last = base[-1]
    outside = [base[:-1] + (last + 1,), base[:-1] + (last + 1, 1), base[:-1], (1, 3), base[:-1] + ((last << 7) & 0xFFFFFFFF | 1,), base[:-1] + (max(0, last - 1), 5)]
    if top is not None:
        # neighbours across the top-level arcs, incl. 2.40 and beyond (first subidentifier >= 120)
        outside += [(2, gen.second_arc_under_2(rng)), (2, gen.second_arc_under_2(rng), 1), (top[0], max(0, top[1] - 1), 7), (min(2, top[0] + 1), 0), (0, 0)]
    outside = [o for o in outside if len(o) >= 2 and o[: len(base)] != base and (o[0] == 2 or o[1] <= 39) and 80 + o[1] < 2**32]
    return base, inside, outside


def hostile_reply(rng, base, inside, outside, bulk, pad=False):
    n = rng.choice([0, 1, 1, 1, 2, 3, 5, 8]) if bulk else rng.choice([0, 1, 1, 1, 1, 1, 2])
    vbs = []
    for _ in range(n):
        r = rng.random()
        if r < 0.6:
            o = rng.choice(inside)
        elif r < 0.8:
            o = rng.choice(outside)
        elif r < 0.9:
            o = base
        else:
            o = rng.choice(inside) + (rng.randrange(3),)
        r = rng.random()
        if r < 0.7:
            v = gen.value(rng, ["int32", "octets", "counter32", "oid"])
        elif r < 0.8:
            v = ["null"]
        else:
            v = [rng.choice(snmp.EXCEPTION_KINDS)]
        vbs.append([gen.oid_text(o), v])
        if pad and len(o) > len(base) and rng.random() < 0.5:
            # the same name with sub-identifiers written non-minimally (leading 0x80 octets, which
            # X.690 8.19.2 forbids): below the base, so that a byte-wise subtree test still passes
            head = ber.oid_content(o[: len(base)])
            tail = b"".join((b"\x80" * rng.choice([0, 1, 1, 2])) + ber.arc_bytes(a) for a in o[len(base) :])
            vbs[-1].append({"name_hex": (head + tail).hex()})
    if bulk and rng.random() < 0.3:
        vbs.sort(key=lambda x: ber.parse_oid_text(x[0]))  # make long increasing runs more likely
    return vbs


def model_walk(base, bulk, replies, strict_out, retries=0):
    """replies: list of ('match', label) | ('end', name). Returns (items, end, asked)
    end: 'stop' | exception name | 'either-stop-or-error'. asked: OIDs requested in order.
    strict_out: reading B (an out-of-subtree OID ends the walk whatever its value)."""
    last = base
    items = []
    asked = []
    for rep in replies:
        asked.append(last)
        if rep[0] == "end":
            if rep[1] == "TimeoutError" and retries > 0:
                retries -= 1  # the application keeps using the iterator: same OID asked again
                continue
            return items, rep[1], asked
        label = rep[1]
        if label["pdu"] == "report":
            return items, "SnmpAuthError", asked
        vbs = [(ber.parse_oid_text(o), v) for o, v in label["varbinds"]]
        if not vbs:
            return items, "stop", asked
        if not bulk:
            if len(vbs) > 1:
                return items, "SnmpError", asked
            o, v = vbs[0]
            if not oracle.in_subtree(base, o):
                return items, "stop", asked
            if not o > last:
                return items, "stop-or-error", asked
            if not snmp.is_data(v):
                return items, "stop", asked
            items.append((ber.oid_text(o), snmp.denote(v)))
            last = o
            continue
        got = 0
        stopped = None
        for o, v in vbs:
            if not snmp.is_data(v):
                if strict_out and not oracle.in_subtree(base, o):
                    stopped = "stop"
                    break
                continue
            if not oracle.in_subtree(base, o):
                stopped = "stop"
                break
            if not o > last:
                stopped = "stop-or-error"
                break
            items.append((ber.oid_text(o), snmp.denote(v)))
            last = o
            got += 1
        if stopped:
            return items, stopped, asked
        if got == 0:
            return items, "stop", asked
    return items, "more", asked


class C06(Prop):
    id = "C06"
    rule = (
        "plans: one walk (getnext / getbulk / fetch; v1, v2c, v3; sync, async) against a hostile agent whose every reply is a scripted list of "
        "(OID, value-or-exception) drawn from a small universe: in-subtree OIDs (incl. multi-octet arcs), repeated and decreasing ones, the base "
        "itself, out-of-subtree siblings/parents, NULL and the three exception values at any position, empty and long lists, Reports. oracle: "
        "yielded OIDs inside the subtree, strictly increasing, equal to the stepwise walk model (two readings where the statement is open), "
        "follow-up requests ask for the last accepted OID, walk ends within the universe size. also: names with sub-identifiers beyond 32 bits or written with leading 0x80 octets, subtrees under 0.x / 1.x / 2.x with neighbours at 2.40 and beyond (there only the invariants containment / strictly increasing / termination are judged). non-trivial = at least one hostile feature "
        "(out-of-subtree, non-increasing, exception/NULL, empty reply) was consumed; distinct = abstract trace + reply shapes"
    )
    quick_runs = 40000
    thorough_runs = 600000

    def families(self, tier):
        return [("getnext", 3), ("getbulk", 4), ("fetch", 1)]

    def expected_counters(self, tier):
        return ["agent.custom", "probe.out-of-subtree", "probe.non-increasing", "probe.base-itself", "probe.exception-mid-list", "probe.empty-reply", "probe.followup-checked", "probe.multi-request-walk", "probe.readings-differ", "probe.walk-retried-after-timeout"]

    def gen(self, rng, family, tier):
        flavour = rng.choice(["sync", "async"])
        ver = rng.choice(["v1", "v2c", "v3"]) if family != "getbulk" else rng.choice(["v2c", "v3"])
        agent = {"mib": [], "communities": []}
        if ver == "v3":
            a, sess = v3_setup(rng, rng.choice(gen.SEC_LEVELS), discover=False, ktypes=["localized", "master"])
            agent.update(a)
            agent["time_window"] = False
        else:
            sess = community_session(rng, ver)
            agent["communities"] = [sess["community"]]
        sess["timeout_ns"] = 500_000_000
        if rng.random() < 0.5:
            sess["allow_bulk"] = rng.random() < 0.7
        base, inside, outside = universe(rng)
        bulk = family == "getbulk" or (family == "fetch" and ver != "v1" and sess.get("allow_bulk", True))
        op = {"id": 1, "s": 0, "op": "walk", "method": family, "oid": gen.oid_text(base), "limit": LIMIT}
        if rng.random() < 0.3:
            op["retry"] = rng.randint(1, 3)  # keep iterating after a TimeoutError
        if family == "getbulk":
            op["max_rep"] = rng.choice([1, 3, 10])
        scripts = {}
        pad = rng.random() < 0.1
        for k in range(1, 14):
            r = rng.random()
            if r < (0.15 if op.get("retry") else 0.03):
                scripts["1:%d" % k] = {"replies": [{"k": "none"}]}
            elif r < 0.06 and ver == "v3":
                scripts["1:%d" % k] = {"replies": [{"k": "custom", "pdu": "report", "varbinds": []}]}
            else:
                item = {"k": "custom", "pdu": "response", "varbinds": hostile_reply(rng, base, inside, outside, bulk, pad)}
                if ver == "v1" and rng.random() < 0.2:
                    item["error_status"] = 2
                    item["error_index"] = 1
                scripts["1:%d" % k] = {"replies": [item]}
        # a looping strategy: repeat the same reply forever
        default = None
        if rng.random() < 0.3:
            default = {"k": "custom", "pdu": "response", "varbinds": hostile_reply(rng, base, inside, outside, bulk, pad)}
            for k in range(rng.randint(1, 6), LIMIT + 5):
                scripts["1:%d" % k] = {"replies": [default]}
        return {"flavour": flavour, "agent": agent, "sessions": [sess], "ops": [op], "scripts": scripts, "latency_ns": 1_000_001, "bulk": bulk, "padded_names": pad}

    def check(self, run):
        out = []
        if not run.results:
            return out
        res = run.results[0]
        op = res["op"]
        base = ber.parse_oid_text(op["oid"])
        bulk = run.plan["bulk"]
        if "exc" in res:
            return [V("C06.walk-raised", "walk construction raised %s" % res["exc"]["exc"])]
        got = [(k, runner.denorm(v)) for k, v in res["ok"]["items"]]
        end = res["ok"]["end"]
        endname = end if isinstance(end, str) else end["exc"]
        # 1/2: containment and monotonicity, straight from the statement
        prev = base
        for k, _ in got:
            o = ber.parse_oid_text(k)
            if not oracle.in_subtree(base, o):
                out.append(V("C06.left-subtree", "walk of %s yielded %s" % (op["oid"], k), method=op["method"]))
                break
            if not o > prev:
                out.append(V("C06.non-increasing-yield", "walk of %s yielded %s after %s" % (op["oid"], k, ber.oid_text(prev)), method=op["method"]))
                break
            prev = o
        if end == "limit":
            out.append(V("C06.does-not-end", "walk of %s still running after %d yields" % (op["oid"], LIMIT), method=op["method"]))
        if isinstance(end, dict) and not end["documented"]:
            out.append(V("C06.undocumented-exception", "walk ended with %s: %s" % (end["exc"], end["msg"][:100]), exc=end["exc"]))
        if out:
            return out
        # 3/4: stepwise model
        exs = run.exchanges(res)
        replies = []
        for ex in exs:
            kind, label, _ = oracle.exchange_verdict(run, 0, ex)
            if kind == MATCH:
                replies.append(("match", label))
                self._probes(run, base, label)
            elif kind == "TIMEOUT":
                replies.append(("end", "TimeoutError"))
            else:
                return out
        if len(exs) > 1:
            run.sim.count("probe.multi-request-walk")
        if run.plan.get("padded_names"):
            run.sim.count("probe.padded-subidentifiers")
            return out
        if any(a >= 2**32 for r in replies if r[0] == "match" for o, _ in r[1].get("varbinds", []) for a in ber.parse_oid_text(o)):
            # a name that is not an SNMP OID: refusing it (SnmpDecodeError) and carrying on are both in order,
            # the invariants above (containment, strictly increasing, termination) are what the statement demands
            run.sim.count("probe.arc-beyond-32-bits")
            return out
        rt = op.get("retry", 0)
        if res["ok"].get("retried_at"):
            run.sim.count("probe.walk-retried-after-timeout")
        a = model_walk(base, bulk, replies, False, rt)
        b = model_walk(base, bulk, replies, True, rt)
        if (a[0], a[1]) != (b[0], b[1]):
            run.sim.count("probe.readings-differ")
        ok = False
        for items, mend, asked in (a, b):
            if len(items) == len(got) and all(x[0] == y[0] and snmp.same_value(x[1], y[1]) for x, y in zip(items, got)) and _end_ok(mend, end):
                ok = True
                # follow-up requests
                wire = [run.wire_dec[(0, ex["serial"])] for ex in exs]
                for n, (w, want) in enumerate(zip(wire, asked)):
                    run.sim.count("probe.followup-checked")
                    if w.get("ok") and list(w["pdu"]["varbinds"]) != [want]:
                        out.append(V("C06.followup-not-last-accepted", "request %d asks for %s, last accepted OID is %s" % (n + 1, [ber.oid_text(x) for x in w["pdu"]["varbinds"]], ber.oid_text(want)), method=op["method"]))
                        break
                if len(exs) != len(asked):
                    out.append(V("C06.request-count", "walk sent %d requests, model %d" % (len(exs), len(asked)), method=op["method"]))
                break
        if not ok:
            out.append(V("C06.walk-differs-from-model", "walk of %s (%s) yielded %s end=%s; model: %s end=%s" % (op["oid"], op["method"], [g[0] for g in got][:8], endname, [i[0] for i in a[0]][:8], a[1]), method=op["method"]))
        return out

    def _probes(self, run, base, label):
        vbs = [(ber.parse_oid_text(o), v) for o, v in label.get("varbinds", [])]
        if not vbs:
            run.sim.count("probe.empty-reply")
        prev = None
        for i, (o, v) in enumerate(vbs):
            if o == base:
                run.sim.count("probe.base-itself")
            elif not oracle.in_subtree(base, o):
                run.sim.count("probe.out-of-subtree")
            if prev is not None and not o > prev:
                run.sim.count("probe.non-increasing")
            if not snmp.is_data(v) and i < len(vbs) - 1:
                run.sim.count("probe.exception-mid-list")
            prev = o

    def abstract(self, run):
        from ..engine import abstract_trace
        from .c07 import _shape

        return abstract_trace(run) + "|" + ";".join(_shape(d["label"]) for d in list(run.dgrams.values())[:14])

    def nontrivial(self, run):
        c = run.sim.counters
        return any(c.get(k) for k in ("probe.out-of-subtree", "probe.non-increasing", "probe.base-itself", "probe.exception-mid-list", "probe.empty-reply"))


def _end_ok(model_end, end):
    name = end if isinstance(end, str) else end["exc"]
    if model_end == "stop":
        return end == "stop"
    if model_end == "more":
        return False
    if model_end == "stop-or-error":
        return end == "stop" or (isinstance(end, dict) and "PySnmpError" in end["mro"])
    if model_end == "TimeoutError":
        return name == "TimeoutError"
    if isinstance(end, dict):
        return oracle.exc_is(end, model_end)
    return False


PROP = C06()
