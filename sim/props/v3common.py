"""Shared workload generator and wire oracles for the SNMPv3 properties
(C09 HMAC, C11 privacy payload, C13 discovery/time sync, C14 salts)."""

from __future__ import annotations

from .. import ber, gen, oracle, snmp, usm
from ..oracle import V
from .base import V3Tracker


def session_keys(cfg, engine_id: bytes):
    """(auth_alg, Kul_auth, priv_alg, Kul_priv) derived independently (hashlib) from
    the configured secrets, localized to `engine_id`. Localized keys are used as given."""
    u = cfg["user"]
    a = u.get("auth")
    if not a:
        return 0, None, 0, None

    def derive(spec):
        key = bytes.fromhex(spec["key"])
        if spec["type"] == "password":
            return usm.localize(a["alg"], usm.password_to_key(a["alg"], key), engine_id)
        if spec["type"] == "master":
            key = (key + b"\0" * 64)[: usm.KEYLEN[a["alg"]]]
            return usm.localize(a["alg"], key, engine_id)
        return (key + b"\0" * 64)[: usm.KEYLEN[a["alg"]]]

    kul_a = derive(a)
    p = u.get("priv")
    if not p:
        return a["alg"], kul_a, 0, None
    return a["alg"], kul_a, p["alg"], derive(p)


def history_plan(rng, tier, levels, silent_streak=False, identity_changes=True, big=True, force_salt=None, nsess=None, discover=None, ktypes=None, long_run=None, send_errors=True):
    """A v3 history: refresh, mixed requests, timeouts, decode errors, idle gaps,
    agent restarts and clock jumps."""
    eng = gen.engine_id(rng)
    agent = {
        "engine_id": eng,
        "users": [],
        "boots": rng.choice([0, 1, 7, 65535, 65536, 2**31 - 2, rng.randrange(2**31 - 1)]),
        "time0": rng.choice([0, 1, 127, 128, 32768, 2**24, 2**31 - 100000, rng.randrange(2**31 - 100000)]),
        "discovery_time": rng.choice(["zero", "real"]),
        "mib": gen.mib(rng, n=rng.randint(2, 8)),
        "cap": rng.choice([1, 3, 10]),
        "time_window": True,
    }
    if rng.random() < 0.4:
        agent["resp_pad"] = [rng.randrange(0, 16) for _ in range(5)]
    if rng.random() < 0.25:
        # contextEngineID need not equal the authoritative engine id (proxies, multiple contexts)
        agent["ctx_engine_id"] = rng.choice(["", "80000000c0ffee", gen.engine_id(rng)])
        agent["ctx_name"] = rng.choice(["", "ctx"])
    nsess = nsess or rng.choice([1, 1, 1, 2, 3])
    sessions = []
    for i in range(nsess):
        level = rng.choice(levels)
        name = rng.choice(["u%d" % i, "user-%d-with-a-name-of-thirty-two" % i, "x%d" % i])
        if rng.random() < 0.12:
            name = ("long%d-" % i) + "n" * rng.choice([110, 121, 122, 200, 250])
        u = gen.user(rng, level, eng, name=name, ktypes=ktypes)
        agent["users"].append(u)
        cfg = {"version": "v3", "user": u, "timeout_ns": rng.choice([200_000_000, 500_000_000, 1_000_000_000])}
        d = rng.random() < 0.5 if discover is None else discover
        if not d:
            cfg["engine_id"] = eng
        elif rng.random() < 0.35:
            cfg["engine_id_empty"] = True
        from .base import ctor_variations

        sessions.append(ctor_variations(rng, cfg))
    rows = agent["mib"]
    oids = [r[0] for r in rows] or ["1.3.6.1.2.1.1.1.0"]
    ops = []
    scripts = {}
    opid = 0
    plan_ops = []
    for s in range(nsess):
        mine = []
        opid += 1
        mine.append({"id": opid, "s": s, "op": "refresh"})
        if rng.random() < 0.3:
            mine[-1]["via"] = "enter"  # `with SnmpSession(...)` / `async with`
        if rng.random() < 0.3 and not silent_streak:
            # the first refresh (discovery / time sync) fails, the application retries later
            k = rng.choice([1, 2])
            scripts["%d:%d" % (opid, k)] = rng.choice([{"replies": [{"k": "none"}]}, {"req": "drop"}, {"replies": [{"k": "genuine", "outer": [{"op": "truncate", "n": rng.randrange(1, 60)}]}]}])
            if rng.random() < 0.5:
                opid += 1
                mine.append({"id": opid, "s": s, "op": "get", "oid": rng.choice([r[0] for r in agent["mib"]] or ["1.3.6"])})
            opid += 1
            mine.append({"id": opid, "s": s, "op": "refresh"})
        if len(mine) == 1 and rng.random() < 0.2 and not silent_streak:
            # (async runs only) the caller cancels the first refresh from outside - before, between or
            # after its two exchanges - and tries again: the session must come out as if nothing had happened
            mine[0]["cancel_ns"] = rng.choice([501, 1_500_001, 3_000_001, 5_000_001])
            if rng.random() < 0.5:
                opid += 1
                mine.append({"id": opid, "s": s, "op": "refresh"})
            # (else: straight on to the requests - the first of them finishes what the refresh began)
        direct = len(mine) == 1 and "engine_id" not in sessions[s] and "via" not in mine[0] and not silent_streak and rng.random() < 0.15
        if direct:
            # the application never enters the session nor calls refresh(): the first operation has to run
            # the engine id discovery by itself (its exchanges: discovery, time sync, then the request)
            opid -= 1
            mine.pop()
        n = rng.randint(2, 6 if tier == "quick" else 14)
        if long_run:
            n = long_run
        first_data_op = direct
        for j in range(n):
            opid += 1
            r = rng.random()
            if silent_streak:
                op = {"id": opid, "s": s, "op": "get", "oid": rng.choice(oids)}
                scripts["%d:1" % opid] = {"replies": [{"k": "none"}]}
                mine.append(op)
                continue
            if r < 0.35:
                op = {"id": opid, "s": s, "op": "get", "oid": rng.choice(oids + [hi_entropy_oid(rng)])}
            elif r < 0.55:
                k = rng.choice([1, 2, 3, 8, 25]) if big else rng.choice([1, 2, 3])
                op = {"id": opid, "s": s, "op": "get_many", "oids": [rng.choice(oids + [hi_entropy_oid(rng)]) for _ in range(k)]}
            elif r < 0.7:
                m = rng.choice(["getnext", "getbulk", "fetch"])
                op = {"id": opid, "s": s, "op": "walk", "method": m, "oid": rng.choice(["1.3.6.1", "1.3.6"]), "limit": rng.choice([1, 2, 5])}
            elif r < 0.8:
                op = {"id": opid, "s": s, "op": "refresh"}
            elif r < 0.9 and identity_changes:
                mine.append({"op": "idle", "s": s, "ns": rng.choice([1_000_000_001, 100_000_000_001, 149_000_000_001, 151_000_000_001, 400_000_000_001, 5_000_000_000_001])})
                continue
            elif identity_changes:
                mine.append({"op": "agent", "do": rng.choice(["restart", "jump", "jump"]), "delta_s": rng.choice([1, 149, 151, 1000, 86400, -100, -200]), "time0": rng.choice([0, 0, 5, 70000])})
                if mine[-1]["do"] == "restart" and rng.random() < 0.3:
                    # an agent that does not persist snmpEngineBoots: back to 0 (or 1) after the restart
                    mine[-1]["boots"] = rng.choice([0, 0, 1])
                continue
            else:
                op = {"id": opid, "s": s, "op": "get", "oid": rng.choice(oids)}
            mine.append(op)
            r = rng.random()
            key = "%d:1" % opid
            if first_data_op:
                first_data_op = False
                op["direct_use"] = True
                continue  # its three exchanges run clean
            if r < 0.12:
                scripts[key] = {"replies": [{"k": "none"}]}
            elif r < 0.2:
                scripts[key] = {"replies": [{"k": "genuine", "outer": [{"op": "truncate", "n": rng.randrange(1, 120)}]}]}
            elif r < 0.26:
                rw = {rng.choice(["msg-id", "request-id"]): "xor1"}
                if rng.random() < 0.7:
                    rw["time"] = rng.choice([0, 1, 77777, 2**31 - 1])
                if rng.random() < 0.4:
                    rw["boots"] = rng.choice([0, 3, 99, 2**31 - 1])
                scripts[key] = {"replies": [{"k": "genuine", "rewrite": rw}] + ([{"k": "genuine", "delay_ns": 2_000_001}] if rng.random() < 0.7 else [])}
            elif r < 0.3:
                scripts[key] = {"req": "drop"}
            elif r < 0.38:
                # a perfectly good answer whose header elements use long-form lengths
                scripts[key] = {"replies": [{"k": "genuine", "rewrite": {"widths": gen.widths(rng, True)}}]}
            elif r < 0.46 and r >= 0.42:
                # the agent answers with an unauthenticated Report (unknown user, wrong digest, ...) that
                # says boots 0 / time 0 - e.g. right after it lost its configuration
                scripts[key] = {"replies": [{"k": "custom", "pdu": "report", "varbinds": [["1.3.6.1.6.3.15.1.1.%d.0" % rng.choice([1, 3, 4, 5, 6]), ["counter32", rng.randrange(2**32)]]], "rewrite": {"noauth": 1, "boots": rng.choice([0, 0, 1]), "time": rng.choice([0, 0, 5])}}]}
            elif r < 0.42:
                # ... or which announces another msgMaxSize (484..2^31-1 are all legal)
                scripts[key] = {"replies": [{"k": "genuine", "rewrite": {"max-size": rng.choice([484, 485, 1472, 65507, 65535, 65536, 2**31 - 2, 2**31 - 1])}}]}
        plan_ops.append(mine)
    while any(plan_ops):
        cand = [i for i, m in enumerate(plan_ops) if m]
        i = rng.choice(cand)
        ops.append(plan_ops[i].pop(0))
    plan = {"flavour": rng.choice(["sync", "async"]), "agent": agent, "sessions": sessions, "ops": ops, "scripts": scripts, "latency_ns": gen.latency(rng, 1000, 2_000_000), "ready_order_seed": rng.randrange(2**31)}
    if len(sessions) > 1 and rng.random() < 0.5:
        plan["share_objects"] = True
    if send_errors and rng.random() < 0.25:
        # the local stack refuses to send one or two of the requests (EPERM, ENOBUFS, ENETUNREACH,
        # ECONNREFUSED from an earlier ICMP): the call fails with OSError, the session lives on
        ids = [o["id"] for o in plan["ops"] if "id" in o]
        plan["send_errors"] = {"%d:1" % rng.choice(ids): rng.choice([1, 105, 101, 111]) for _ in range(rng.randint(1, 2))} if ids else {}
    if plan["flavour"] == "async":
        # the environment task cannot be interleaved deterministically with per-session idles: keep env ops out
        plan["ops"] = [o for o in ops if o["op"] != "agent"]
    return plan


def two_engine_plan(rng, tier, levels, ktypes=("password", "master")):
    """The same user (same secrets) on two agents with different engine ids, used by two
    sessions of one process, interleaved: keys must be localized per engine."""
    p = history_plan(rng, tier, levels, nsess=2, identity_changes=False, ktypes=list(ktypes))
    a0 = p["agent"]
    u = p["sessions"][0]["user"]
    a0["users"] = [u]
    a1 = dict(a0)
    eng1 = gen.engine_id(rng)
    while eng1 == a0["engine_id"]:
        eng1 = gen.engine_id(rng)
    a1["engine_id"] = eng1
    a1["boots"] = rng.choice([0, 5, 77])
    a1["time0"] = rng.choice([0, 100000])
    p["agents"] = [a0, a1]
    del p["agent"]
    for i, sc in enumerate(p["sessions"]):
        sc["user"] = u
        sc["agent"] = i
        if "engine_id" in sc:
            sc["engine_id"] = p["agents"][i]["engine_id"]
    p["two_engines"] = True
    return p


def hi_entropy_oid(rng):
    return "1.3.6.1.4.1.%d.%d.%d" % (rng.randrange(2**28, 2**32), rng.randrange(2**28, 2**32), rng.randrange(0, 100))


def preliminary_count(run, s, res, deferred_at_start):
    """Number of leading exchanges of an operation that are the session's own engine id discovery /
    time synchronisation (empty Get requests) rather than the operation's request: an operation on a
    session that has not discovered its engine yet runs the discovery first (at most two exchanges)."""
    if not deferred_at_start or res["op"]["op"] == "refresh":
        return 0
    pre = 0
    for ex in run.exchanges(res)[:2]:
        d = run.wire_dec.get((s, ex["serial"]), {})
        if d.get("ok") and d["pdu"]["type"] == "get" and not d["pdu"]["varbinds"]:
            pre += 1
        else:
            break
    return pre


def iter_v3_tx(run):
    """Yield (s, res, n, ex, dec, raw, tracker_expected, tracker) for every v3 datagram,
    in history order, driving one V3Tracker per session."""
    trackers = {}
    for res in sorted(run.results, key=lambda r: (r["t0"], r["i"])):
        s = res["s"]
        cfg = run.sess_cfg[s]
        if cfg.get("version") != "v3":
            continue
        tr = trackers.get(s)
        if tr is None:
            tr = trackers[s] = V3Tracker(run, s)
        tr.pre = preliminary_count(run, s, res, tr.deferred)
        for n, ex in enumerate(run.exchanges(res)):
            dec = run.wire_dec[(s, ex["serial"])]
            raw = bytes.fromhex(ex["hex"])
            exp = tr.expected() if tr.known else None
            deferred = tr.deferred
            yield s, res, n, ex, dec, raw, exp, deferred, tr
            tr.observe(run, s, res, n, ex)


def check_mac(cfg, dec, raw, deferred):
    """C09 oracle for one emitted datagram. Returns a V or None."""
    m = dec["m"]
    u = m["usm"]
    has_key = bool(cfg["user"].get("auth")) and not deferred
    flag = bool(m["flags"] & 1)
    if not has_key:
        if flag or u["auth"] != b"":
            return V("C09.auth-without-key", "session holds no auth key but flag=%s field=%s" % (flag, u["auth"].hex()))
        return None
    if not flag:
        return V("C09.auth-flag-clear", "session holds an auth key but the auth flag is clear")
    if len(u["auth"]) != 12:
        return V("C09.mac-length", "msgAuthenticationParameters has %d octets" % len(u["auth"]))
    alg, kul, _, _ = session_keys(cfg, u["engine_id"])
    z = bytearray(raw)
    z[u["auth_off"] : u["auth_off"] + 12] = b"\0" * 12
    want = usm.hmac96(alg, kul, bytes(z))
    if want != u["auth"]:
        return V("C09.wrong-mac", "MAC %s, reference %s (alg %d, engine id %s, %d octets, auth offset %d)" % (u["auth"].hex(), want.hex(), alg, u["engine_id"].hex(), len(raw), u["auth_off"]), alg=alg)
    return None
