"""C11 - encrypted payloads are exactly the scoped PDU under RFC 3414 / 3826."""

from __future__ import annotations

from .. import ber, gen, oracle, snmp
from ..oracle import MATCH, V
from . import v3common
from .base import Prop
from .c04 import _compare

PRIV_LEVELS = ["md5-des", "md5-aes", "sha-des", "sha-aes"]


class C11(Prop):
    id = "C11"
    rule = (
        "plans: v3 sessions with privacy {DES, AES} x {MD5, SHA} x key types x {engine id given, discovered}; histories of sends, timeouts, "
        "decode errors, receives, refresh/set_keys, idle gaps, agent restarts (boots/time change the AES IV), plus a family of 90-140 consecutive "
        "unanswered requests on one session (the cipher object keeps a private scratch buffer). every encrypted datagram is decrypted by the "
        "pure-Python reference under independently derived keys and must be exactly the scoped PDU of the call plus < 1 block of padding; "
        "agent-encrypted replies must be delivered with exact content. non-trivial = >= 2 encrypted requests with different plaintext lengths "
        "mod block size or after an abnormal call; distinct = abstract trace + multiset of (plaintext length mod 16)"
    )
    quick_runs = 4000
    thorough_runs = 50000

    def families(self, tier):
        return [("history", 8), ("silent-streak", 1), ("two-engines", 2)]

    def expected_counters(self, tier):
        return ["probe.encrypted-checked", "probe.des", "probe.aes", "probe.padding-nonzero-length", "probe.encrypted-after-timeout", "probe.encrypted-after-receive", "probe.reply-decrypted-value-checked", "probe.streak-over-80", "probe.after-discovery"]

    def gen(self, rng, family, tier):
        if family == "silent-streak":
            p = v3common.history_plan(rng, tier, [rng.choice(["md5-des", "sha-des", "sha-aes"])], silent_streak=True, nsess=1, long_run=rng.randint(90, 140), ktypes=["localized", "master"])
            for s in p["sessions"]:
                s["timeout_ns"] = 10_000_000
            return p
        if family == "two-engines":
            return v3common.two_engine_plan(rng, tier, PRIV_LEVELS)
        return v3common.history_plan(rng, tier, PRIV_LEVELS)

    def check(self, run):
        out = []
        lens = []
        prev_abnormal = {}
        streak = {}
        for s, res, n, ex, dec, raw, exp, deferred, tr in v3common.iter_v3_tx(run):
            cfg = run.sess_cfg[s]
            m = dec.get("m")
            if m is None:
                out.append(V("C11.not-decodable", "datagram not strictly decodable: %s" % dec.get("error")))
                continue
            has_priv = bool(cfg["user"].get("priv")) and not deferred
            if not has_priv:
                continue
            if "encrypted" not in m or not (m["flags"] & 2):
                out.append(V("C11.not-encrypted", "session holds a privacy key but msgData is not an encrypted OCTET STRING / priv flag clear (flags %d)" % m["flags"]))
                continue
            run.sim.count("probe.encrypted-checked")
            palg = cfg["user"]["priv"]["alg"]
            run.sim.count("probe.des" if palg == 1 else "probe.aes")
            block = 8 if palg == 1 else 16
            # independent decrypt under keys derived from the configured secret
            _, _, _, kul = v3common.session_keys(cfg, m["usm"]["engine_id"])
            try:
                from .. import usm

                plain = usm.priv_decrypt(palg, kul, m["usm"]["boots"], m["usm"]["time"], m["usm"]["priv"], m["encrypted"])
                sc = snmp.dec_scoped(plain, 0, len(plain), request=True, allow_padding=True)
            except (ValueError, ber.StrictError) as e:
                out.append(V("C11.does-not-decrypt", "reference decryption (alg %d, salt %s, boots %d, time %d, %d octets) does not yield a scoped PDU: %s" % (palg, m["usm"]["priv"].hex(), m["usm"]["boots"], m["usm"]["time"], len(m["encrypted"]), e), alg=palg))
                continue
            pad = sc["pad"]
            if pad:
                run.sim.count("probe.padding-nonzero-length")
            if pad >= block:
                out.append(V("C11.padding-too-long", "%d octets follow the scoped PDU (block %d)" % (pad, block), alg=palg))
            lens.append((len(plain) - pad) % 16)
            # the plaintext is the request of this call
            pre = getattr(tr, "pre", 0)
            want = (("get",), []) if n < pre else _expected_request(res, n - pre)
            if want is not None:
                t, oids = want
                if sc["pdu"]["type"] not in t or (oids is not None and list(sc["pdu"]["varbinds"]) != oids):
                    out.append(V("C11.plaintext-not-the-request", "decrypted PDU is %s %s, the call was %s" % (sc["pdu"]["type"], [ber.oid_text(o) for o in sc["pdu"]["varbinds"]][:4], res["op"]), alg=palg))
            if sc["ctx_engine_id"] != m["usm"]["engine_id"]:
                out.append(V("C11.context-engine-id", "contextEngineID %s differs from the authoritative engine id %s" % (sc["ctx_engine_id"].hex(), m["usm"]["engine_id"].hex())))
            pa = prev_abnormal.get(s)
            if pa == "timeout":
                run.sim.count("probe.encrypted-after-timeout")
                streak[s] = streak.get(s, 0) + 1
                if streak[s] > 80:
                    run.sim.count("probe.streak-over-80")
            elif pa == "received":
                run.sim.count("probe.encrypted-after-receive")
                streak[s] = 0
            if not cfg.get("engine_id"):
                run.sim.count("probe.after-discovery")
            prev_abnormal[s] = "received" if ex["rx"] else "timeout"
        # a request that fits must be sent: SnmpEncodeError on small requests is a failure of the cipher path
        for res in run.results:
            cfg = run.sess_cfg[res["s"]]
            if not cfg["user"].get("priv"):
                continue
            exc = res.get("exc")
            if exc and "PySnmpEncodeError" in exc["mro"] and res["op"]["op"] in ("get", "refresh"):
                out.append(V("C11.encode-error-on-fitting-request", "%s failed with SnmpEncodeError although the request fits the buffer (call %d of the run)" % (res["op"]["op"], res["i"])))
            # converse: agent-encrypted replies are delivered with exact content
            if res["op"]["op"] in ("get", "get_many"):
                exs = run.exchanges(res)
                if len(exs) == 1:
                    kind, label, _ = oracle.exchange_verdict(run, res["s"], exs[0])
                    if kind == MATCH and label.get("encrypted"):
                        run.sim.count("probe.reply-decrypted-value-checked")
                        exp = oracle.expect_get(label) if res["op"]["op"] == "get" else oracle.expect_get_many(label)
                        for v in _compare(res, exp, "encrypted reply"):
                            v.oracle = v.oracle.replace("C04.", "C11.reply-")
                            out.append(v)
        run.c11_lens = lens
        return out

    def abstract(self, run):
        from ..engine import abstract_trace

        return abstract_trace(run) + "|" + ",".join(str(x) for x in sorted(getattr(run, "c11_lens", [])))

    def nontrivial(self, run):
        return len(getattr(run, "c11_lens", [])) >= 2


def _expected_request(res, n):
    op = res["op"]
    if op["op"] == "get":
        return ("get",), [ber.parse_oid_text(op["oid"])]
    if op["op"] == "get_many":
        return ("get",), [ber.parse_oid_text(o) for o in op["oids"]]
    if op["op"] == "refresh":
        return ("get",), []
    if op["op"] == "walk":
        return ("getnext", "getbulk"), ([ber.parse_oid_text(op["oid"])] if n == 0 else None)
    return None


PROP = C11()
