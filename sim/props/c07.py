"""C07 - get / get_many results and SNMP exceptions map as documented."""

from __future__ import annotations

from .. import gen, oracle, snmp
from ..oracle import MATCH, V
from .base import Prop, community_session, v3_setup
from .c04 import _compare, _short


def reply_varbinds(rng, asked):
    n = rng.choice([0, 1, 1, 1, 2, 3, 6])
    pool = list(asked) + [gen.oid_text(gen.oid(rng)) for _ in range(2)]
    vbs = []
    for _ in range(n):
        o = rng.choice(pool)
        r = rng.random()
        if r < 0.15:
            v = ["null"]
        elif r < 0.4:
            v = [rng.choice(snmp.EXCEPTION_KINDS)]
        else:
            v = gen.value(rng, gen.SAFE_KINDS + ["int", "real"], real_binary=True)
        vbs.append([o, v])
    if vbs and rng.random() < 0.3:
        vbs.append([vbs[0][0], gen.value(rng, gen.SAFE_KINDS)])  # duplicate OID, later wins
    return vbs


def report_varbinds(rng):
    """What a Report may carry: a usmStats counter (RFC 3414), a counter of the message processing
    subsystem (snmpUnknownSecurityModels / snmpInvalidMsgs / snmpUnknownPDUHandlers, RFC 3412), something
    else entirely, several counters, or nothing."""
    r = rng.random()
    if r < 0.5:
        return [["1.3.6.1.6.3.15.1.1.%d.0" % rng.randint(1, 6), ["counter32", rng.randrange(2**32)]]]
    if r < 0.7:
        return [["1.3.6.1.6.3.11.2.1.%d.0" % rng.randint(1, 3), ["counter32", rng.randrange(2**32)]]]
    if r < 0.8:
        return [[gen.oid_text(gen.oid(rng)), gen.value(rng, gen.SAFE_KINDS)]]
    if r < 0.9:
        return [["1.3.6.1.6.3.15.1.1.%d.0" % k, ["counter32", rng.randrange(2**32)]] for k in rng.sample(range(1, 7), 2)]
    return []


class C07(Prop):
    id = "C07"
    rule = (
        "plans: one session {v1,v2c,v3 any level} x {sync,async}; 1-4 get/get_many calls; the (otherwise matching, correctly signed and "
        "encrypted) reply content is scripted: 0..n varbinds mixing values, NULL, the three exception values, duplicates, foreign OIDs, or a "
        "Report; plus silent agent (timeout mapping). expected result from the documented table. Reports carry usmStats counters, RFC 3412 counters, arbitrary names, several or no varbinds. non-trivial = a scripted reply was "
        "delivered; distinct = distinct abstract trace plus the shape of the reply (count and kinds of varbinds)"
    )
    quick_runs = 30000
    thorough_runs = 400000

    def families(self, tier):
        return [("v2c", 3), ("v1", 2), ("v3", 3)]

    def expected_counters(self, tier):
        return ["agent.custom", "probe.report-delivered", "probe.zero-varbinds", "probe.many-varbinds", "probe.exception-value", "probe.null-value", "probe.duplicate-oid", "probe.timeout-mapped"]

    def gen(self, rng, family, tier):
        flavour = rng.choice(["sync", "async"])
        agent = {"mib": [], "communities": []}
        if family == "v3":
            level = rng.choice(gen.SEC_LEVELS)
            a, sess = v3_setup(rng, level, discover=False, ktypes=["localized", "master"])
            agent.update(a)
            agent["time_window"] = False
        else:
            sess = community_session(rng, family)
            agent["communities"] = [sess["community"]]
        sess["timeout_ns"] = 500_000_000
        ops, scripts = [], {}
        for opid in range(1, rng.randint(1, 4) + 1):
            if rng.random() < 0.5:
                asked = [gen.oid_text(gen.oid(rng))]
                op = {"id": opid, "s": 0, "op": "get", "oid": asked[0]}
            else:
                asked = [gen.oid_text(gen.oid(rng)) for _ in range(rng.randint(1, 4))]
                op = {"id": opid, "s": 0, "op": "get_many", "oids": asked}
            ops.append(op)
            r = rng.random()
            if r < 0.1:
                scripts["%d:1" % opid] = {"replies": [{"k": "none"}]}
            elif r < 0.25 and family == "v3":
                scripts["%d:1" % opid] = {"replies": [{"k": "custom", "pdu": "report", "varbinds": report_varbinds(rng), "rewrite": dict(rng.choice([{}, {"noauth": 1}]), **rng.choice([{}, {"request-id": "zero"}, {"request-id": "xor1"}, {"request-id": rng.randrange(2**31)}]))}]}
            else:
                scripts["%d:1" % opid] = {"replies": [{"k": "custom", "pdu": "response", "varbinds": reply_varbinds(rng, asked), "error_status": rng.choice([0, 0, 0, 2, 5])}]}
        return {"flavour": flavour, "agent": agent, "sessions": [sess], "ops": ops, "scripts": scripts, "latency_ns": gen.latency(rng, 1000, 2_000_000)}

    def check(self, run):
        out = []
        for res in run.results:
            op = res["op"]
            exs = run.exchanges(res)
            if len(exs) != 1:
                out.append(V("C07.no-request-sent", "%s emitted %d datagrams: %s" % (op["op"], len(exs), _short(res))))
                continue
            kind, label, verdicts = oracle.exchange_verdict(run, res["s"], exs[0])
            if kind == "TIMEOUT":
                run.sim.count("probe.timeout-mapped")
                if not ("exc" in res and res["exc"]["exc"] == "TimeoutError"):
                    out.append(V("C07.timeout-mapping", "silent agent: expected TimeoutError, got %s" % _short(res)))
                continue
            if kind != MATCH:
                continue
            vbs = label["varbinds"]
            if label["pdu"] == "report":
                run.sim.count("probe.report-delivered")
            if len(vbs) == 0:
                run.sim.count("probe.zero-varbinds")
            if len(vbs) > 1:
                run.sim.count("probe.many-varbinds")
            if any(v[1][0] in snmp.EXCEPTION_KINDS for v in vbs):
                run.sim.count("probe.exception-value")
            if any(v[1][0] == "null" for v in vbs):
                run.sim.count("probe.null-value")
            if len({v[0] for v in vbs}) < len(vbs):
                run.sim.count("probe.duplicate-oid")
            exp = oracle.expect_get(label) if op["op"] == "get" else oracle.expect_get_many(label)
            for v in _compare(res, exp, "%s reply %s" % (op["op"], _shape(label))):
                v.oracle = v.oracle.replace("C04.", "C07.")
                out.append(v)
        return out

    def abstract(self, run):
        from ..engine import abstract_trace

        shapes = []
        for d in run.dgrams.values():
            shapes.append(_shape(d["label"]))
        return abstract_trace(run) + "|" + ";".join(shapes)

    def nontrivial(self, run):
        return any(d["label"].get("custom") for d in run.dgrams.values())


def _shape(label):
    if "varbinds" not in label:
        return "?"
    return label.get("pdu", "?")[:3] + ":" + ",".join(v[1][0][:6] for v in label["varbinds"])


PROP = C07()
