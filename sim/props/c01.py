"""C01 - the receive path is total: no datagram can crash the client."""

from __future__ import annotations

import copy

from .. import gen, runner, snmp
from ..oracle import V
from .base import Prop, community_session, v3_setup

SPECIAL = [0x1F, 0x80, 0x84, 0xFF, 0x00, 0x30, 0x9F, 0xBF, 0x81, 0x82, 0x7F, 0x0D, 0x09, 0x05, 0x06]
CONFIGS = ["v1", "v2c", "v3-noauth", "v3-md5", "v3-sha", "v3-md5-des", "v3-sha-aes", "v3-sha-des", "v3-md5-aes"]
SWAP_TAGS = [0x80, 0x81, 0x82, 0x09, 0x0D, 0x30, 0xA2, 0xA8, 0xA0, 0x24, 0x05, 0x02, 0x04, 0x06, 0x1F, 0x3F, 0x9F, 0x44, 0x46, 0x01, 0x07, 0x40, 0x03, 0x0A]


def garbage(rng, n=None):
    n = rng.choice([0, 1, 2, 2, 3, 4, 5, 8, 16, 40]) if n is None else n
    return bytes(rng.choice(SPECIAL) if rng.random() < 0.6 else rng.randrange(256) for _ in range(n))


def hostile_value(rng):
    r = rng.random()
    if r < 0.2:
        return [rng.choice(["nosuchobject", "nosuchinstance", "endofmibview", "null"])]
    if r < 0.5:
        # REAL of every shape, including nonsense
        c = rng.choice([gen.real_content(rng), garbage(rng).hex(), bytes([rng.choice([0x80, 0x83, 0xC3, 0x8F, 0xBF, 0x01, 0x02, 0x03, 0x04, 0x3F, 0x44])]).hex() + garbage(rng, rng.randint(0, 6)).hex()])
        return ["real", c]
    if r < 0.7:
        tag = rng.choice(SWAP_TAGS)
        c = garbage(rng)
        if len(c) < 128:
            return ["rawtlv", (bytes([tag, len(c)]) + c).hex()]
    return gen.value(rng)


def hostile_varbinds(rng, base="1.3.6.1.2.1"):
    n = rng.choice([0, 1, 1, 1, 2, 3, 5])
    vbs = []
    for i in range(n):
        o = base + "." + ".".join(str(rng.randrange(0, 300)) for _ in range(rng.randint(1, 3)))
        opts = {}
        r = rng.random()
        if r < 0.25 and i > 0 or r < 0.08:
            opts["name_tag"] = 0x0D
            opts["name_hex"] = garbage(rng, rng.choice([0, 1, 2, 3, 5])).hex()
        elif r < 0.35:
            opts["empty"] = True
        elif r < 0.42:
            opts["only_name"] = True
        elif r < 0.5:
            opts["name_hex"] = garbage(rng, rng.choice([0, 1, 2, 6])).hex()
        elif r < 0.58:
            opts["extra_hex"] = garbage(rng, rng.randint(1, 4)).hex()
        vbs.append([o, hostile_value(rng), opts])
    return vbs


def directed_item(rng, delay, op):
    """Well-formed envelope, hostile content aimed at one deep decoder."""
    base = op.get("oid", "1.3.6.1.2.1")
    sc = rng.choice(["getnext-exc", "rel-oid", "rel-oid", "real", "empty-vb", "short-name", "counts", "big", "big"])
    inside = base + "." + ".".join(str(rng.randrange(1, 200)) for _ in range(rng.randint(1, 2)))
    if sc == "getnext-exc":
        v = rng.choice([["nosuchobject"], ["nosuchinstance"], ["endofmibview"], ["null"], hostile_value(rng)])
        vbs = [[inside, v]]
    elif sc == "rel-oid":
        first = rng.choice(["1.3", "0.0", "2.39", "1.3.6", inside])
        o1 = {}
        if rng.random() < 0.35:
            o1["name_hex"] = garbage(rng, rng.choice([0, 0, 1])).hex()
        vbs = [[first, gen.value(rng, gen.SAFE_KINDS), o1]]
        for _ in range(rng.randint(1, 3)):
            vbs.append([inside, gen.value(rng, gen.SAFE_KINDS), {"name_tag": 0x0D, "name_hex": bytes(rng.choice([0, 1, 2, 3, 39, 40, 0x80, 0xFF, 0x7F]) for _ in range(rng.choice([0, 1, 1, 2, 3, 6]))).hex()}])
    elif sc == "real":
        vbs = [[inside, ["real", rng.choice([gen.real_content(rng), bytes([rng.choice([0x80, 0x81, 0x82, 0x83, 0xC3, 0xBF, 0x8C, 0x01, 0x02, 0x03, 0x00, 0x44, 0x40, 0x7F])]).hex() + garbage(rng, rng.randint(0, 9)).hex()])]]]
    elif sc == "big":
        # a well-formed reply of 2040..4080 octets (around the msgMaxSize the client announces, up to
        # its receive buffer), correctly signed or with a bogus MAC
        total = rng.choice([2030, 2047, 2048, 2049, 2060, 2500, 3000, 3900, 4000])
        vbs = []
        left = total
        while left > 0:
            n = min(left, rng.choice([100, 255, 300, 900]))
            vbs.append([inside + ".%d" % len(vbs), ["octets", (bytes([rng.randrange(256)]) * n).hex()]])
            left -= n + 20
        it = {"k": "custom", "delay_ns": delay, "varbinds": vbs, "pdu": "response"}
        if rng.random() < 0.5:
            it["rewrite"] = {"mac": rng.choice(["zero", "valid", {"mac": "random", "mac_hex": "11" * 12}])}
        return it
    elif sc == "empty-vb":
        vbs = [[inside, ["null"], {"empty": True}]] if rng.random() < 0.5 else [[inside, ["int", 1]], [inside, ["null"], {"empty": True}]]
    elif sc == "short-name":
        vbs = [[inside, gen.value(rng, gen.SAFE_KINDS), {"name_hex": garbage(rng, rng.choice([0, 1, 2])).hex()}]]
    else:
        vbs = [[inside + ".%d" % i, hostile_value(rng)] for i in range(rng.choice([0, 2, 3, 40]))]
    return {"k": "custom", "delay_ns": delay, "varbinds": vbs, "pdu": "response"}


def v3_tail_item(rng, delay):
    """v3 only: a well-formed envelope whose security fields and msgData are degenerate
    (short / absent MAC, odd salt, tiny or missing msgData), so that offsets computed from
    the security parameters point at the very end of the datagram."""
    it = {"k": "genuine", "delay_ns": delay, "rewrite": {}}
    m = rng.choice(["absent", "short", "short", "zero", "valid"])
    it["rewrite"]["mac"] = {"mac": m, "mac_len": rng.randrange(0, 12)} if m == "short" else m
    if rng.random() < 0.5:
        it["rewrite"]["salt"] = garbage(rng, rng.choice([0, 0, 1, 7, 8, 9])).hex()
    tail = rng.choice(["0400", "040100", "3000", "0500", "04820000", "", "0408" + "00" * 8, "30020400"])
    it["inner"] = [{"op": "raw", "name": "scoped-pdu", "hex": tail}]
    if rng.random() < 0.3:
        it["rewrite"]["flags"] = rng.choice([0, 1, 2, 3, 4, 5, 7, 0xFF])
    if rng.random() < 0.35:
        # a correctly signed reply whose ciphertext lost its last octets
        it = {"k": "genuine", "delay_ns": delay, "rewrite": {"cipher-trim": rng.randint(1, 9)}}
    return it


def corrupt_item(rng, delay):
    """One corrupted in-flight reply."""
    it = {"k": "genuine", "delay_ns": delay}
    r = rng.random()
    if r < 0.12:
        it = {"k": "raw", "hex": garbage(rng).hex(), "delay_ns": delay}
    elif r < 0.22:
        it["cut"] = {"node": rng.randrange(0, 60), "where": rng.choice(["start", "content", "end", "mid"])}
    elif r < 0.32:
        it["outer"] = [{"op": "truncate", "n": rng.randrange(0, 300)}]
    elif r < 0.42:
        it["outer"] = [{"op": "byteset", "pos": rng.randrange(0, 200), "val": rng.choice(SPECIAL)} for _ in range(rng.randint(1, 3))]
    elif r < 0.5:
        it["outer"] = [{"op": "bitflip", "pos": rng.randrange(0, 200), "bit": rng.randrange(8)} for _ in range(rng.randint(1, 3))]
    elif r < 0.55:
        it["outer"] = [{"op": rng.choice(["pad", "empty", "oversize", "splice"]), "hex": garbage(rng).hex(), "pos": rng.randrange(0, 100), "val": rng.choice(SPECIAL), "extra": rng.choice([1, 2, 100])}]
    elif r < 0.82:
        ops = []
        for _ in range(rng.randint(1, 3)):
            k = rng.choice(["del", "dup", "swap_tag", "len", "set_content", "trunc_content", "raw", "len_form", "tag_form"])
            ops.append({"op": k, "node": rng.randrange(0, 60), "tag": rng.choice(SWAP_TAGS), "delta": rng.choice([-3, -1, 1, 2, 100, 5000, 2**31]), "hex": garbage(rng).hex(), "n": rng.randrange(0, 4)})
            if k == "len_form":
                ops[-1]["form"] = rng.choice(["indef", "indef-eoc", "ff", "max32", "max64", "nine", "wide126", "wide127", "zero-long", "top-bit", "alias64", "alias32", "alias16"])
            elif k == "tag_form":
                ops[-1]["hex"] = rng.choice(["1f00", "1f04", "1f30", "1f8100", "1f8004", "1fffffffffffffffffff7f", "3f10", "5f1f", "bf8000", "1f", "1fff", "ff7f"])
        it["inner"] = ops
    elif r < 0.9:
        it["rewrite"] = {"salt": garbage(rng, rng.choice([0, 1, 4, 7, 9, 12, 16])).hex()}
    else:
        it = {"k": "custom", "delay_ns": delay, "varbinds": hostile_varbinds(rng), "pdu": rng.choice(["response", "response", "report", "get"])}
        if rng.random() < 0.3:
            it["inner"] = [{"op": rng.choice(["swap_tag", "len"]), "node": rng.randrange(0, 60), "tag": rng.choice(SWAP_TAGS), "delta": rng.choice([-1, 1, 3])}]
    return it


class C01(Prop):
    id = "C01"
    rule = (
        "plans: one session of a random config {v1,v2c,v3 noAuth/MD5/SHA/+DES/+AES} x {sync,async} issuing 1-3 operations from "
        "{get,get_many,getnext,getbulk,refresh}; the reference agent answers and the reply in flight is corrupted (raw garbage, truncation at "
        "TLV boundaries and arbitrary offsets, byte set / bit flip, pad, oversize, splice, TLV delete/duplicate/tag swap/length tamper before "
        "signing+encryption, hostile varbind lists: REAL forms, RELATIVE-OID names, exception values, empty varbinds, bad salt lengths) or a socket "
        "error is injected. half of the plans are executed twice with different poison bytes in all never-written buffer memory and must agree. "
        "non-trivial = a corrupted datagram or socket error was consumed by a pending call; distinct = distinct abstract trace"
    )
    quick_runs = 40000
    thorough_runs = 600000

    def families(self, tier):
        return [("corrupt", 6), ("directed", 4), ("sockerr", 1), ("raw-only", 1), ("late-stray", 1)]

    def expected_counters(self, tier):
        return ["fault.raw", "fault.cut-at-tlv", "fault.outer.truncate", "fault.outer.byteset", "fault.outer.bitflip", "fault.inner.del", "fault.inner.dup", "fault.inner.swap_tag", "fault.inner.len", "fault.inner.len_form", "fault.inner.tag_form", "fault.rewrite.salt", "agent.custom", "fault.recv-errno", "probe.poison-differential", "fault.rewrite.cipher-trim", "fault.slow-client"]

    def gen(self, rng, family, tier):
        cfgname = rng.choice(CONFIGS)
        flavour = rng.choice(["sync", "async"])
        rows = gen.mib(rng, base=(1, 3, 6, 1, 2, 1), n=rng.randint(1, 6), kinds=gen.DATA_KINDS)
        agent = {"mib": rows, "cap": rng.choice([1, 3, 10])}
        if cfgname.startswith("v3"):
            level = cfgname[3:]
            a, sess = v3_setup(rng, level, discover=rng.random() < 0.25, ktypes=["localized", "master"])
            agent.update(a)
        else:
            sess = community_session(rng, cfgname)
            agent["communities"] = [sess["community"]]
        sess["timeout_ns"] = rng.choice([500_000_000, 1_000_000_000])
        ops = []
        scripts = {}
        send_errors = {}
        lat = gen.latency(rng, 1000, 3_000_000)
        opid = 0
        kinds = ["get", "get_many", "getnext", "getbulk"] + (["refresh"] if sess["version"] == "v3" else [])
        if sess["version"] == "v1":
            kinds.remove("getbulk")
        if family == "late-stray":
            # sync client, well-formed but unwanted datagrams around and just after the deadline,
            # optionally a slow client (virtual processing time per received datagram)
            flavour = "sync"
            T = rng.choice([50_000_000, 150_000_000, 333_000_000])
            sess["timeout_ns"] = T
            recv_cost = rng.choice([0, 0, 1_001, 500_001, 3_000_001, 60_000_001])
            for opid in range(1, rng.randint(2, 4)):
                ops.append({"id": opid, "s": 0, "op": "get", "oid": rng.choice([r[0] for r in rows])})
                items = []
                t = 0
                for _ in range(rng.randint(1, 6)):
                    t += rng.randrange(T // 10, T // 2) | 1
                    if t > T:
                        break
                    items.append({"k": "genuine", "delay_ns": t, "rewrite": {"request-id": rng.choice(["xor1", "plus1", "zero"])}})
                for _ in range(rng.randint(1, 3)):
                    items.append({"k": "genuine", "delay_ns": T + rng.choice([-1_001, 1_001, 200_001, 900_001, 2_000_001, 3_500_001, 9_000_001]), "rewrite": {"request-id": "xor1"}})
                scripts["%d:1" % opid] = {"replies": items}
            return {"flavour": flavour, "agent": agent, "sessions": [sess], "ops": ops, "scripts": scripts, "send_errors": {}, "latency_ns": lat, "poison": 0xA5, "differential": False, "recv_cost_ns": recv_cost}
        for _ in range(rng.randint(1, 3)):
            opid += 1
            k = rng.choice(kinds)
            base = rng.choice(["1.3.6.1.2.1", "1.3.6", "1.3.6.1.2.1.%d" % rng.randrange(0, 20)])
            if k == "get":
                op = {"id": opid, "s": 0, "op": "get", "oid": rng.choice([r[0] for r in rows] + [base])}
            elif k == "get_many":
                op = {"id": opid, "s": 0, "op": "get_many", "oids": [rng.choice([r[0] for r in rows] + [base]) for _ in range(rng.randint(1, 3))]}
            elif k == "refresh":
                op = {"id": opid, "s": 0, "op": "refresh"}
            else:
                op = {"id": opid, "s": 0, "op": "walk", "method": k, "oid": base, "limit": 12}
                if k == "getbulk":
                    op["max_rep"] = rng.choice([1, 2, 5, 20])
            ops.append(op)
            for req in range(1, rng.choice([2, 3, 4])):
                key = "%d:%d" % (opid, req)
                items = []
                if family == "sockerr":
                    items.append({"k": "sockerr", "errno": rng.choice([111, 4, 5, 11, 104, 90, 12]), "delay_ns": lat})
                    if rng.random() < 0.3:
                        send_errors[key] = rng.choice([1, 13, 101, 105, 11])
                elif family == "raw-only":
                    for _ in range(rng.randint(1, 4)):
                        items.append({"k": "raw", "hex": garbage(rng).hex(), "delay_ns": lat})
                elif family == "directed":
                    if sess["version"] == "v3" and rng.random() < 0.4:
                        items.append(v3_tail_item(rng, lat))
                    else:
                        items.append(directed_item(rng, lat, op))
                else:
                    for j in range(rng.choice([1, 1, 2])):
                        items.append(corrupt_item(rng, lat + j * 1001))
                if rng.random() < 0.5:
                    items.append({"k": "genuine", "delay_ns": lat + 10_001})
                scripts[key] = {"replies": items}
        plan = {"flavour": flavour, "agent": agent, "sessions": [sess], "ops": ops, "scripts": scripts, "send_errors": send_errors, "latency_ns": lat, "poison": rng.choice([0xA5, 0x00, 0xFF, 0x30]), "differential": rng.random() < 0.5}
        if not plan["differential"] and rng.random() < 0.4:
            plan["rx_tail"] = "keep"
        return plan

    def execute(self, plan):
        run = runner.execute(plan)
        run.alt = None
        if plan.get("differential"):
            p2 = copy.deepcopy(plan)
            p2["poison"] = (plan.get("poison", 0xA5) ^ 0x5A) & 0xFF
            run.alt = runner.execute(p2)
            run.sim.count("probe.poison-differential")
        return run

    def check(self, run):
        out = []
        for res in run.results:
            out += totality(res, "C01", run.sim)
            # a reply whose ciphertext was cut short cannot be a whole scoped PDU: if a value comes
            # back for it, octets outside the received datagram were decoded
            if res["op"]["op"] in ("get", "get_many") and "ok" in res:
                exs = run.exchanges(res)
                if exs and exs[-1]["rx"]:
                    last = run.dgrams[exs[-1]["rx"][-1]]["label"]
                    if last.get("cipher_trimmed"):
                        out.append(V("C01.reads-outside-received-bytes", "%s returned %r for a reply whose ciphertext was cut by %d octet(s)" % (res["op"]["op"], res["ok"], last["cipher_trimmed"]), trim=last["cipher_trimmed"]))
        if run.alt is not None:
            a = [(r.get("ok"), r.get("exc", {}).get("exc")) for r in run.results]
            b = [(r.get("ok"), r.get("exc", {}).get("exc")) for r in run.alt.results]
            if a != b:
                i = next(i for i in range(min(len(a), len(b))) if a[i] != b[i]) if len(a) == len(b) else -1
                out.append(V("C01.reads-unwritten-memory", "outcome depends on the fill byte of never-written buffer memory: %r vs %r" % (a[i] if i >= 0 else a, b[i] if i >= 0 else b)))
        return out

    def nontrivial(self, run):
        for ev in run.sim.hist:
            if ev[0] == "rx":
                lab = run.dgrams.get(ev[3], {}).get("label", {})
                if lab.get("wf") is not True or lab.get("custom"):
                    return True
        return False


def totality(res, pid, sim=None):
    """The call returned, or raised a documented exception."""
    out = []
    op = res["op"]["op"]
    if res.get("step_limit"):
        out.append(V(pid + ".fails-to-return", "%s exceeded the step budget" % op, op=op))
    exc = res.get("exc")
    if exc is None and isinstance(res.get("ok"), dict) and isinstance(res["ok"].get("end"), dict):
        exc = res["ok"]["end"]
    if exc is not None and sim is not None:
        sim.count("probe.outcome.%s:%s" % (exc["exc"], exc["msg"].split(":")[0][:24]))
    if exc is not None and not exc["documented"]:
        import re

        sig = re.sub(r"[0-9]+", "N", exc["msg"])[:80]
        out.append(V("%s.undocumented-exception[%s: %s]" % (pid, exc["exc"], sig), "%s raised %s: %s" % (op, exc["exc"], exc["msg"][:160]), exc=exc["exc"], op=op))
    return out


PROP = C01()
