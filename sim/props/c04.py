"""C04 - only the reply to the outstanding request is ever delivered."""

from __future__ import annotations

from .. import ber, gen, oracle, snmp
from ..oracle import MATCH, REJECT, SKIP, UNKNOWN, V
from .base import Prop, community_session, v3_setup


def link_fault_items(rng, timeout_ns, prev_keys, version, agent_cfg, lat):
    """Reply script for one request: a sequence of non-matching / faulty
    deliveries, optionally followed by the genuine reply inside the timeout."""
    items = []
    n_bad = rng.choice([0, 0, 1, 1, 2, 3])
    t = lat
    for _ in range(n_bad):
        t += gen.latency(rng, 1000, max(2000, timeout_ns // 8))
        kind = rng.choice(["rid", "rid", "community-or-user", "msgid-or-version", "stale", "truncate", "dup-late", "engine", "reflect", "request-pdu", "stray-report", "tag-alias"])
        it = {"k": "genuine", "delay_ns": t}
        if kind == "rid":
            it["rewrite"] = {"request-id": rng.choice(["prev", "zero", "plus1", "xor1", "neg", "bit31", "bit32", "hi", "m256", "m65536", "m16777216", "p256", "p16777216", rng.randrange(2**31)])}
        elif kind == "community-or-user":
            if version == "v3":
                it["rewrite"] = {"user": rng.choice([b"other".hex(), b"".hex(), b"U1".hex()])}
            else:
                it["rewrite"] = {"community": rng.choice([b"other".hex(), b"".hex(), b"PUBLIC".hex(), b"public0".hex(), b"caf\xe9".hex(), b"caf\xff".hex(), b"caf\xc3".hex()])}
        elif kind == "msgid-or-version":
            if version == "v3":
                it["rewrite"] = {"msg-id": rng.choice(["prev", "zero", "plus1", "xor1", "bit31", "bit32", rng.randrange(2**31)])}
                if rng.random() < 0.25:
                    it["rewrite"] = {"version": rng.choice(["alias256", "alias-256", "alias2^32", "alias65536"])}
                if rng.random() < 0.4:
                    it["rewrite"]["engine-id"] = rng.choice(["80001f8880aabbccde", "0102030405"])
                if rng.random() < 0.3:
                    it["rewrite"]["ctx-name"] = rng.choice([b"ctx".hex(), b"\x00".hex(), ("61" * 40)])
            else:
                it["rewrite"] = {"version": rng.choice([{"v1": 1, "v2c": 0}[version], "alias256", "alias-256", "alias2^32", "alias65536"])}
        elif kind == "engine":
            if version == "v3":
                it["rewrite"] = {"engine-id": rng.choice(["80001f8880aabbccde", "0102030405", "", "ext:00", "ext:%02x" % rng.randrange(256), "ext:0102", "cut"])}
            else:
                it["rewrite"] = {"request-id": "prev"}
        elif kind == "stale":
            if prev_keys:
                it = {"k": "stale", "of": rng.choice(prev_keys), "delay_ns": t}
            else:
                it["rewrite"] = {"request-id": "xor1"}
        elif kind == "truncate":
            it["outer"] = [{"op": "truncate", "n": rng.randrange(0, 400)}]
        elif kind == "dup-late":
            it["rewrite"] = {"request-id": "plus1"}
            it["copies"] = rng.randint(2, 3)
        elif kind == "reflect":
            it = {"k": "reflect", "delay_ns": t}
        elif kind == "stray-report":
            # a Report that is not for this session's request: other (or empty) user name, other msgID or
            # engine id (v3); other community (v1/v2c). Unauthenticated, as discovery-time Reports are.
            it = {"k": "custom", "pdu": "report", "delay_ns": t, "varbinds": [["1.3.6.1.6.3.15.1.1.%d.0" % rng.randint(1, 6), ["counter32", rng.randrange(2**32)]]]}
            if version == "v3":
                it["rewrite"] = dict(rng.choice([{"user": ""}, {"user": ""}, {"user": b"other".hex()}, {"msg-id": "xor1"}, {"msg-id": "prev"}, {"engine-id": "0102030405"}]), noauth=1)
            else:
                it["rewrite"] = {"community": rng.choice([b"other".hex(), b"".hex()])}
        elif kind == "tag-alias":
            it["inner"] = [{"op": "tag_alias", "name": rng.choice(["pdu", "pdu", "request-id", "varbinds", "message", "version"]), "k": rng.choice([1, 1, 2, 255])}]
        elif kind == "request-pdu":
            # somebody else's request (or a confused agent): a request-type PDU with a foreign id
            it["rewrite"] = {"pdu-type": rng.choice([0xA0, 0xA1, 0xA5]), "request-id": rng.choice(["xor1", "plus1", "zero", "prev"])}
        items.append(it)
    fate = rng.choice(["deliver", "deliver", "deliver", "drop", "late", "dup", "reorder"])
    t += gen.latency(rng, 1000, max(2000, timeout_ns // 8))
    if fate == "deliver":
        items.append({"k": "genuine", "delay_ns": t})
        if version == "v3" and rng.random() < 0.1:
            # the answer names a context: still the answer
            items[-1]["rewrite"] = {"ctx-name": rng.choice([b"ctx".hex(), b"vrf-blue".hex()])}
    elif fate == "dup":
        items.append({"k": "genuine", "delay_ns": t, "copies": rng.randint(2, 4)})
    elif fate == "late":
        # arrives after the deadline: during the next call or an idle period
        items.append({"k": "genuine", "delay_ns": timeout_ns + gen.latency(rng, 2001, timeout_ns)})
    elif fate == "reorder":
        # genuine first, junk after (consumed by the next call)
        items.insert(0, {"k": "genuine", "delay_ns": lat})
    else:
        items.append({"k": "none"})
    return items


class C04(Prop):
    id = "C04"
    rule = (
        "plans: 1-2 sessions x 1-4 (thorough: up to 8) consecutive get/get_many requests, each reply scripted from "
        "{deliver, drop, duplicate, late, reorder, stale, rewrite request-id/community/version/msgID/user/engine-id, truncate, reflect}; "
        "agent stamps every value with the serial of the request it answers. also stray Reports (empty / foreign user, msgID, engine id, community) and the oracle match-left-unread (a matching reply that reached the socket behind skipped datagrams well before the deadline and was never read). non-trivial = at least one link fault or rewrite fired "
        "while a request was outstanding; distinct = distinct abstract trace (event kinds, sessions, outcome classes, fault kinds)"
    )
    quick_runs = 30000
    thorough_runs = 500000

    def families(self, tier):
        return [("link-v2c", 3), ("link-v1", 2), ("link-v3", 3)]

    def expected_counters(self, tier):
        return ["fault.rewrite.request-id", "fault.rewrite.community", "fault.rewrite.version", "fault.rewrite.msg-id", "fault.rewrite.user", "fault.rewrite.engine-id", "fault.stale", "fault.duplicate", "fault.delay", "fault.reply-drop", "fault.outer.truncate", "probe.skip-then-match", "probe.stale-consumed-by-later-call"]

    def gen(self, rng, family, tier):
        version = family.split("-")[1]
        flavour = rng.choice(["sync", "async", "sync", "async", "threads"])
        nsess = rng.choice([1, 1, 2]) if flavour != "threads" else rng.choice([2, 3, 4])
        maxreq = 4 if tier == "quick" else 8
        rows = gen.mib(rng, n=rng.randint(2, 8))
        agent = {"mib": rows, "stamp": True, "communities": []}
        sessions = []
        for s in range(nsess):
            if version == "v3":
                level = rng.choice(["noauth", "md5", "sha", "md5-des", "sha-aes"])
                a, cfg = v3_setup(rng, level, discover=(s == 0 and rng.random() < 0.4), ktypes=["localized", "master"])
                a["discovery_time"] = "real"
                if s == 0:
                    agent.update(a)
                else:
                    # same engine, different user
                    u = gen.user(rng, level, agent["engine_id"], name="user%d" % s, ktypes=["localized", "master"])
                    agent["users"].append(u)
                    cfg = {"version": "v3", "user": u, "timeout_ns": cfg["timeout_ns"], "engine_id": agent["engine_id"]}
                agent["time_window"] = False
            else:
                cfg = community_session(rng, version)
                if cfg["community"] not in agent["communities"]:
                    agent["communities"].append(cfg["community"])
            sessions.append(cfg)
        oids = [r[0] for r in rows] or ["1.3.6.1.2.1.1.1.0"]
        ops = []
        scripts = {}
        opid = 0
        lat = gen.latency(rng, 1000, 5_000_000)
        for s in range(nsess):
            prev_keys = []
            if version == "v3" and not sessions[s].get("engine_id"):
                # discovery first: its two exchanges get link faults too
                opid += 1
                ops.append({"id": opid, "s": s, "op": "refresh"})
                for k in (1, 2):
                    if rng.random() < 0.7:
                        scripts["%d:%d" % (opid, k)] = {"replies": link_fault_items(rng, sessions[s]["timeout_ns"], [], version, agent, lat)}
            for _ in range(rng.randint(1, maxreq)):
                opid += 1
                if rng.random() < 0.7:
                    op = {"id": opid, "s": s, "op": "get", "oid": rng.choice(oids)}
                else:
                    op = {"id": opid, "s": s, "op": "get_many", "oids": [rng.choice(oids) for _ in range(rng.randint(1, 3))]}
                ops.append(op)
                if flavour == "async" and rng.random() < 0.08:
                    # the caller gives up on this call early (asyncio.wait_for) and goes on using the session
                    op["cancel_ns"] = rng.choice([lat // 2, lat * 2, sessions[s]["timeout_ns"] // 3]) | 1
                key = "%d:1" % opid
                scripts[key] = {"replies": link_fault_items(rng, sessions[s]["timeout_ns"], prev_keys, version, agent, lat)}
                if rng.random() < 0.1:
                    scripts[key]["req"] = "drop"
                prev_keys.append(key)
                if rng.random() < 0.2:
                    ops.append({"op": "idle", "s": s, "ns": rng.choice([1_000_001, sessions[s]["timeout_ns"] * 2 + 1])})
        if flavour == "sync":
            rng.shuffle(ops) if nsess > 1 and rng.random() < 0.5 else None
            # keep per-session order stable after shuffle
            if nsess > 1:
                per = {s: [o for o in ops if o.get("s") == s] for s in range(nsess)}
                order = [o.get("s") for o in ops]
                ops = [per[s].pop(0) for s in order]
        send_errors = {"%d:1" % rng.randint(1, max(1, opid)): rng.choice([1, 105, 101, 111]) for _ in range(rng.randint(1, 2))} if rng.random() < 0.1 else {}
        second_loop = rng.randint(1, len(ops)) if flavour == "async" and len(ops) > 1 and rng.random() < 0.15 else 0
        return {"second_loop_at": second_loop, "send_errors": send_errors, "flavour": flavour, "agent": agent, "sessions": sessions, "ops": ops, "scripts": scripts, "latency_ns": lat, "ready_order_seed": rng.randrange(2**31), "rx_tail": rng.choice(["poison", "keep"]), "sched_seed": rng.randrange(2**31)}

    def check(self, run):
        out = []
        stamps = {}  # session -> {serial: request id}
        for res in run.results:
            op = res["op"]
            if op["op"] == "refresh":
                out += self.check_refresh(run, res)
                continue
            if op["op"] not in ("get", "get_many"):
                continue
            if res.get("cancelled"):
                # cancelled from outside: nothing is claimed about this call; what it leaves behind
                # (its late reply, its reader registration) is judged through the calls that follow
                run.sim.count("probe.call-cancelled-by-caller")
                continue
            s = res["s"]
            exs = run.exchanges(res)
            if len(exs) != 1:
                if "exc" in res and not res["exc"]["documented"]:
                    out.append(V("C04.undocumented-exception", "%s raised %s" % (op["op"], res["exc"]["exc"]), exc=res["exc"]["exc"]))
                continue
            ex = exs[0]
            if ex["send_err"] is not None:
                # the local stack refused the datagram: the call fails with OSError, nothing else is claimed
                run.sim.count("probe.send-refused")
                if "ok" in res:
                    out.append(V("C04.delivered-nonmatching", "nothing was sent (errno %s) but the call returned %r" % (ex["send_err"], res["ok"]), op=op["op"]))
                continue
            kind, label, verdicts = oracle.exchange_verdict(run, s, ex)
            pending = run.wire_dec[(s, ex["serial"])]
            # direct attribution check, independent of the acceptance model
            if "ok" in res:
                delivered = run.dgrams[ex["rx"][-1]]["label"] if ex["rx"] else {}
                for st in _stamps(res["ok"]):
                    if st != ex["serial"]:
                        other = run.wire_dec.get((s, st), {})
                        # (an answer to another request whose id was rewritten to the outstanding id is
                        # entitled to delivery: only the ids decide - think of a sequential id generator)
                        if other.get("request_id") != pending.get("request_id") and delivered.get("request_id") != pending.get("request_id"):
                            out.append(V("C04.value-of-other-request", "op %s (request serial %d, id %s) returned a value stamped for request serial %d (id %s)" % (op["op"], ex["serial"], pending.get("request_id"), st, other.get("request_id")), op=op["op"]))
            if kind == UNKNOWN:
                continue
            n_skip = sum(1 for v in verdicts if v[0] == SKIP)
            if n_skip and kind == MATCH:
                run.sim.count("probe.skip-then-match")
            if any(v[1].get("stale") for v in verdicts):
                run.sim.count("probe.stale-consumed-by-later-call")
            decisive = next((i for i, v in enumerate(verdicts) if v[0] not in (SKIP,)), None)
            if decisive is not None and decisive < len(ex["rx"]) - 1:
                out.append(V("C04.continued-after-decisive", "%s datagram #%d did not end the wait (consumed %d more)" % (kind, decisive, len(ex["rx"]) - 1 - decisive), kind=kind))
                continue
            if kind == MATCH:
                exp = oracle.expect_get(label) if op["op"] == "get" else oracle.expect_get_many(label)
                out += _compare(res, exp, "matching reply")
            elif kind == REJECT:
                if not ("exc" in res and oracle.exc_is(res["exc"], "SnmpDecodeError")):
                    out.append(V("C04.reject-not-decode-error", "undecodable datagram (%s) ended with %s instead of SnmpDecodeError" % (label.get("why"), _short(res)), why=label.get("why")))
            elif kind == "TIMEOUT":
                if "ok" in res:
                    out.append(V("C04.delivered-nonmatching", "only non-matching datagrams arrived (%s) but the call returned %r" % ([v[1].get("why") or "rewrite" for v in verdicts], res["ok"]), op=op["op"]))
                elif not oracle.exc_is(res["exc"], "TimeoutError"):
                    out.append(V("C04.skip-ended-wait", "a non-matching datagram ended the call with %s" % _short(res), exc=res["exc"]["exc"]))
                elif verdicts and res["t1"] - ex["t"] < run.sess_cfg[s]["timeout_ns"] - 20_000_000:
                    # TimeoutError is the right outcome, but only once the timeout has run: a skipped
                    # datagram must not end the wait (a matching reply could still arrive)
                    out.append(V("C04.skip-ended-wait", "the call consumed only non-matching datagrams and gave up after %.6f s of a %.3f s timeout" % ((res["t1"] - ex["t"]) / 1e9, run.sess_cfg[s]["timeout_ns"] / 1e9), exc="early-timeout"))
                elif verdicts:
                    # ... nor stop the call from taking what arrives afterwards: a matching reply that
                    # reached the socket well before the deadline, behind skipped datagrams only, and
                    # was never read by this call means the skip ended the wait in effect
                    T = run.sess_cfg[s]["timeout_ns"]
                    margin = 50_000_000 + 20 * run.plan.get("recv_cost_ns", 0)
                    enq = _enq(run)
                    before = _consumed_before(run).get((s, res["i"]), ())
                    for did, d in run.dgrams.items():
                        if d["s"] != s or did not in enq or did in ex["rx"] or did in before:
                            continue
                        if not (ex["t"] <= enq[did] <= ex["t"] + T - margin):
                            continue
                        if oracle.classify(run.sess_cfg[s], pending, d["label"]) == MATCH:
                            out.append(V("C04.skip-ended-wait", "after %d skipped datagram(s) the call never read the matching reply that arrived %.6f s after the request (timeout %.3f s) and raised TimeoutError" % (len(verdicts), (enq[did] - ex["t"]) / 1e9, T / 1e9), exc="match-left-unread"))
                            break
            elif kind == oracle.SOCKERR:
                pass
        return out


def _enq(run):
    """datagram id -> instant it reached the session's socket queue."""
    m = getattr(run, "_enq_map", None)
    if m is None:
        m = run._enq_map = {ev[3]: ev[2] for ev in run.sim.hist if ev[0] == "enq"}
    return m


def _consumed_before(run):
    """(session, op index) -> datagram ids already consumed when that call started (history order)."""
    m = getattr(run, "_consumed_before", None)
    if m is None:
        m = run._consumed_before = {}
        seen = set()
        for ev in run.sim.hist:
            if ev[0] == "call":
                m[(ev[1], ev[2])] = frozenset(seen)
            elif ev[0] == "rx":
                seen.add(ev[3])
    return m


def _refresh(self, run, res):
    """refresh() = up to two exchanges; each must end as the acceptance model says."""
    out = []
    s = res["s"]
    for n, ex in enumerate(run.exchanges(res)):
        if ex["send_err"] is not None:
            run.sim.count("probe.send-refused")
            return out  # the request never left: OSError, nothing else is claimed
        kind, label, verdicts = oracle.exchange_verdict(run, s, ex)
        if kind == UNKNOWN:
            return out
        decisive = next((i for i, v in enumerate(verdicts) if v[0] != SKIP), None)
        if decisive is not None and decisive < len(ex["rx"]) - 1:
            return out + [V("C04.continued-after-decisive", "refresh exchange %d: %s datagram #%d did not end the wait" % (n + 1, kind, decisive), kind=kind)]
        if kind == MATCH:
            if any(v[0] == SKIP for v in verdicts):
                run.sim.count("probe.skip-then-match")
            continue
        if kind == REJECT:
            if not ("exc" in res and oracle.exc_is(res["exc"], "SnmpDecodeError")):
                out.append(V("C04.reject-not-decode-error", "refresh: undecodable datagram ended with %s" % _short(res), why=label.get("why")))
            return out
        if kind == "TIMEOUT":
            if not ("exc" in res and oracle.exc_is(res["exc"], "TimeoutError")):
                out.append(V("C04.delivered-nonmatching", "refresh exchange %d saw only non-matching datagrams but ended with %s" % (n + 1, _short(res)), op="refresh"))
            return out
        return out
    if "exc" in res and oracle.exc_is(res["exc"], "TimeoutError"):
        out.append(V("C04.matching-reply-not-delivered", "refresh: every exchange received a matching reply, yet it ended with TimeoutError", op="refresh"))
    return out


C04.check_refresh = _refresh


def _stamps(n):
    """Serials embedded by the stamping agent in a normalised result."""
    out = []
    if n[0] == "bytes":
        b = bytes.fromhex(n[1])
        if b"|" in b:
            try:
                out.append(int(b.split(b"|")[0]))
            except ValueError:
                pass
    elif n[0] == "dict":
        for _, v in n[1]:
            out += _stamps(v)
    return out


def _short(res):
    if "exc" in res:
        return "%s(%s)" % (res["exc"]["exc"], res["exc"]["msg"][:60])
    return "value %r" % (res["ok"],)


def _compare(res, exp, what):
    if exp[0] == "exc":
        if "exc" in res and oracle.exc_is(res["exc"], exp[1]):
            return []
        return [V("C04.wrong-outcome", "%s: expected %s, got %s" % (what, exp[1], _short(res)), expected=exp[1])]
    if "ok" not in res:
        return [V("C04.wrong-outcome", "%s: expected value %r, got %s" % (what, exp[1], _short(res)), expected="value")]
    if not oracle.values_equal(res["ok"], exp[1]):
        return [V("C04.wrong-value", "%s: expected %r, got %r" % (what, exp[1], res["ok"]), expected="value")]
    return []


PROP = C04()
