"""C19 - the rate limiter never lets the request rate exceed rps."""

from __future__ import annotations

import asyncio
import itertools
import random

from .. import gen, runner
from ..core import Sim
from ..oracle import V
from .base import Prop, community_session

NS = 1_000_000_000


class PolicerRun:
    """History of one RPSPolicer driven on the simulated clock."""

    def __init__(self, plan):
        self.plan = plan
        self.sim = Sim()
        self.results = []
        self.asks = []
        self.releases = []
        self.delays = []
        self.ctor = None

    def execute(self):
        g = runner.gufo()
        sim = self.sim
        g.policer.perf_counter_ns = sim.perf_counter_ns
        g.policer.sleep = sim.sleep
        plan = self.plan
        sim.now = plan.get("t0", 0)
        ov = plan.get("overshoot")
        if ov:
            it = itertools.cycle(ov)
            sim.sleep_overshoot = lambda ns: next(it)
        try:
            via = plan.get("via", "direct")
            if via == "direct":
                p = g.policer.RPSPolicer(plan["rps"])
            else:
                # the same rate handed to a session: limit_rps= builds the limiter
                cls = g.aclient.SnmpSession if via == "async-session" else g.sclient.SnmpSession
                sess = cls("127.0.0.1", port=10161, limit_rps=plan["rps"])
                p = sess._policer
                if p is None:
                    raise RuntimeError("session built without a limiter")
            self.ctor = "ok"
        except ValueError:
            self.ctor = "ValueError"
            return self
        except BaseException as e:  # noqa: BLE001
            self.ctor = type(e).__name__
            return self
        if plan.get("flavour") == "async":
            loop = runner.SimLoop(sim, random.Random(0))

            async def main():
                for gap in plan["gaps"]:
                    if gap:
                        await asyncio.sleep(gap / 1e9)
                    self.asks.append(sim.now)
                    await p.wait()
                    self.releases.append(sim.now)

            try:
                loop.run_until_complete(main())
            finally:
                loop.close()
        else:
            for gap in plan["gaps"]:
                sim.run_until(sim.now + gap)
                self.asks.append(sim.now)
                n0 = len(sim.hist)
                p.wait_sync()
                self.releases.append(sim.now)
                for ev in sim.hist[n0:]:
                    if ev[0] == "sleep":
                        self.delays.append(ev[2])
        sim.log("policer", self.asks, self.releases)
        return self


def gaps_for(rng, delta, n):
    out = []
    for _ in range(n):
        r = rng.random()
        if r < 0.25:
            g = 0
        elif r < 0.45:
            g = rng.randrange(0, max(1, delta))
        elif r < 0.55:
            g = delta
        elif r < 0.75:
            k = rng.randint(1, 5)
            g = max(0, k * delta + rng.choice([-1, 0, 1]))
        elif r < 0.9:
            g = rng.randrange(delta, 3 * delta + 2)
        else:
            g = delta * rng.choice([10, 1000, 10**6]) + rng.randrange(0, max(1, delta))
        out.append(g)
    return out


class C19(Prop):
    id = "C19"
    rule = (
        "plans: the real RPSPolicer (sync wait_sync and async wait) on the simulated clock for intervals from 1 ns to 10 s, fed call-time sequences "
        "with gaps 0, < delta, = delta, k*delta +-1 ns, >> delta, starting at arbitrary clock origins; a family through rate-limited sync/async "
        "sessions where the release time is the instant the request hits the wire; a bounded-exhaustive family for delta <= 3 ns enumerating every "
        "gap sequence of length 4 (thorough: 5) over 0..2*delta+1; an overshoot family (sleep returns late) judged only by the weaker bound; constructor "
        "refusals. oracle: requested delay <= delta, any k+1 consecutive releases span > (k-1)*delta, release >= ask. invalid rates also through the sync and async session constructors (limit_rps=). non-trivial = at least one "
        "call was delayed and one passed immediately; distinct = (delta, gap sequence) hash"
    )
    quick_runs = 30000
    thorough_runs = 300000

    def families(self, tier):
        return [("direct-sync", 4), ("direct-async", 2), ("session", 2), ("exhaustive-small", 1), ("overshoot", 1), ("ctor", 1)]

    def expected_counters(self, tier):
        return ["probe.delayed", "probe.immediate", "probe.window-checked", "probe.ctor-refused", "probe.ctor-accepted", "probe.session-release-checked", "probe.exhaustive-sequences", "probe.overshoot-applied", "probe.gap-exact-multiple"]

    def gen(self, rng, family, tier):
        if family == "ctor":
            plan = {"kind": "ctor", "rps": rng.choice([0, 0.0, -0.0, -1, -0.5, -1e-300, 1e9, 1e9 + 1, 1.0000001e9, 2e9, 1e18, float("inf"), 1e-9, 0.1, 1, 3, 1e9 - 1, 999_999_999.5, -5, -1000.0, float("nan"), -float("inf")]), "gaps": [0, 0]}
            plan["via"] = rng.choice(["direct", "direct", "sync-session", "async-session"])
            # limit_rps=0 / 0.0 / -0.0 through a session constructor is refused like any other non-positive rate (fix bb3a74d)
            return plan
        if family == "session":
            ver = rng.choice(["v1", "v2c", "v2c", "v3"])
            agent_v3 = None
            if ver == "v3":
                from .base import v3_setup

                agent_v3, sess = v3_setup(rng, rng.choice(["md5", "sha", "noauth"]), discover=rng.random() < 0.7, ktypes=["localized"])
                agent_v3["time_window"] = False
            else:
                sess = community_session(rng, ver)
            sess["max_repetitions"] = rng.choice([1, 2])
            rps = rng.choice([1, 2, 3, 7, 10, 100, 1000, 0.5, 33.3, 2000, 10000, 1e6, 999.5])
            sess["limit_rps"] = rps
            sess["policer_arg"] = rng.choice([None, None, True, "both"])
            sess["timeout_ns"] = 1_000_000_000
            delta = int(NS / float(rps))
            ops = []
            rows = gen.mib(rng, n=rng.choice([3, 8]))
            opid = 0
            for g in gaps_for(rng, delta, rng.randint(3, 12)):
                if g:
                    ops.append({"op": "idle", "s": 0, "ns": g})
                opid += 1
                if ver == "v3" and rng.random() < 0.5:
                    ops.append({"id": opid, "s": 0, "op": "refresh"})  # refresh requests are requests too
                elif rng.random() < 0.8:
                    ops.append({"id": opid, "s": 0, "op": "get", "oid": rows[0][0] if rows else "1.3.6"})
                else:
                    m = rng.choice(["getnext", "getbulk", "fetch"]) if ver != "v1" else rng.choice(["getnext", "fetch"])
                    if ver == "v3":
                        m = "getnext"
                    ops.append({"id": opid, "s": 0, "op": "walk", "method": m, "oid": rng.choice(["1.3.6", "1.3"]), "limit": rng.choice([3, 6, 10])})
            agent = {"mib": rows, "communities": [sess.get("community", "public")]}
            if agent_v3 is not None:
                agent.update({k: v for k, v in agent_v3.items() if k != "mib"})
            return {"kind": "session", "flavour": rng.choice(["sync", "async"]), "agent": agent, "sessions": [sess], "ops": ops, "latency_ns": rng.choice([1001, 1_000_001]), "rps": rps}
        if family == "exhaustive-small":
            delta = rng.randint(1, 3)
            return {"kind": "exhaustive", "delta": delta, "rps": NS / delta, "t0": rng.choice([0, 5, 10**15]), "length": 4 if (tier == "quick" or delta == 3) else 5}
        r = rng.random()
        if r < 0.3:
            delta = rng.choice([1, 2, 3, 7, 10, 999, 1000, 1001])
        elif r < 0.7:
            delta = rng.randrange(1, 10**9)
        else:
            delta = rng.choice([10**9, 2 * 10**9, 10**10, 333_333_333, 142_857_142])
        rps = rng.choice([NS / delta, NS / delta, 1.0 / (delta / NS)])
        plan = {"kind": "direct", "rps": rps, "gaps": gaps_for(rng, int(NS / rps) if rps > 0 else 1, rng.randint(3, 40)), "t0": rng.choice([0, 1, 10**9, 2**62, rng.randrange(10**15)]), "flavour": "async" if family == "direct-async" else "sync"}
        if plan["flavour"] == "async":
            # asyncio timers fire up to the loop's clock resolution (1 ns) early and the loop clock is a
            # float: keep the async family to intervals >= 1 us and times below 10^5 s
            plan["t0"] = rng.choice([0, 1, 10**9, 10**13])
            if int(NS / plan["rps"]) < 1000:
                plan["rps"] = NS / rng.randrange(1000, 10**7)
            d = int(NS / plan["rps"])
            plan["gaps"] = [min(g, 20 * d + 3) for g in gaps_for(rng, d, len(plan["gaps"]))]
        if family == "overshoot":
            d = int(NS / rps)
            plan["overshoot"] = [rng.choice([0, 1, d // 2, d, 3 * d, rng.randrange(0, 2 * d + 1)]) for _ in range(7)]
            plan["flavour"] = "sync"
        return plan

    def execute(self, plan):
        if plan["kind"] == "session":
            return runner.execute(plan)
        if plan["kind"] == "exhaustive":
            delta = plan["delta"]
            agg = PolicerRun(plan)
            agg.sub = []
            for gaps in itertools.product(range(0, 2 * delta + 2), repeat=plan.get("length", 4)):
                r = PolicerRun({"rps": plan["rps"], "gaps": list(gaps), "t0": plan["t0"], "flavour": "sync"}).execute()
                agg.sub.append(r)
                agg.sim.count("probe.exhaustive-sequences")
            agg.sim.log("exhaustive", delta, len(agg.sub))
            return agg
        return PolicerRun(plan).execute()

    # ---- oracle
    def judge(self, sim, delta, asks, releases, delays, strict, what, early_ns=0):
        out = []
        for a, r in zip(asks, releases):
            if r < a:
                out.append(V("C19.release-before-ask", "%s: released at %d, asked at %d" % (what, r, a)))
            if r - a > delta + early_ns and strict:
                out.append(V("C19.delayed-more-than-interval", "%s: request delayed by %d ns, interval is %d ns" % (what, r - a, delta), strict=strict))
            if r > a:
                sim.count("probe.delayed")
            else:
                sim.count("probe.immediate")
        for d in delays:
            if d > delta:
                out.append(V("C19.delayed-more-than-interval", "%s: limiter asked to sleep %d ns, interval is %d ns" % (what, d, delta), strict=strict))
        n = len(releases)
        slack = 1 if strict else 2
        for i in range(n):
            for k in range(1, min(n - i, 12)):
                sim.count("probe.window-checked")
                span = releases[i + k] - releases[i]
                if not span > (k - slack) * delta - early_ns * k:
                    out.append(V("C19.rate-exceeded", "%s: %d consecutive releases span %d ns <= %d*%d ns (releases %s)" % (what, k + 1, span, k - slack, delta, releases[i : i + k + 1]), strict=strict))
                    return out
        return out

    def check(self, run):
        plan = run.plan
        out = []
        if plan["kind"] == "ctor":
            rps = plan["rps"]
            valid = rps > 0 and int(NS / rps) >= 1 if rps == rps and rps not in (float("inf"),) else False
            if valid:
                run.sim.count("probe.ctor-accepted")
                if run.ctor != "ok":
                    out.append(V("C19.valid-rate-refused", "RPSPolicer(%r) raised %s" % (rps, run.ctor)))
            else:
                run.sim.count("probe.ctor-refused")
                if run.ctor != "ValueError":
                    out.append(V("C19.invalid-rate-accepted", "%s(%r): %s" % ("RPSPolicer" if plan.get("via", "direct") == "direct" else plan["via"] + " limit_rps=", rps, run.ctor), via=plan.get("via", "direct")))
            return out
        if plan["kind"] == "session":
            delta = int(NS / float(plan["rps"]))
            asks, rel = [], []
            tx = sorted((ev[3] for ev in run.sim.hist if ev[0] == "tx"))
            for t in tx:
                rel.append(t)
                run.sim.count("probe.session-release-checked")
            # ask time of each request = time the previous one was released or the call started; bound the delay per call instead
            out += self.judge(run.sim, delta, [], rel, [ev[2] for ev in run.sim.hist if ev[0] == "sleep"], True, "session rps=%s" % plan["rps"], 1 if plan["flavour"] == "async" else 0)
            for res in run.results:
                exc = res.get("exc")
                if exc and not exc["documented"]:
                    out.append(V("C19.undocumented-exception", "%s raised %s" % (res["op"]["op"], exc["exc"])))
            return out
        if plan["kind"] == "exhaustive":
            for r in run.sub:
                out += self.judge(run.sim, plan["delta"], r.asks, r.releases, r.delays, True, "delta=%d gaps=%s" % (plan["delta"], r.plan["gaps"]))
                if out:
                    break
            return out
        if run.ctor != "ok":
            return [V("C19.valid-rate-refused", "RPSPolicer(%r) raised %s" % (plan["rps"], run.ctor))]
        delta = int(NS / plan["rps"])
        if plan.get("overshoot"):
            run.sim.count("probe.overshoot-applied")
        if any(g and g % delta == 0 for g in plan["gaps"]):
            run.sim.count("probe.gap-exact-multiple")
        strict = not plan.get("overshoot")
        early = 1 if plan.get("flavour") == "async" else 0
        return self.judge(run.sim, delta, run.asks, run.releases, run.delays, strict, "rps=%r delta=%d" % (plan["rps"], delta), early)

    def abstract(self, run):
        import hashlib

        p = run.plan
        return hashlib.sha256(repr((p["kind"], p.get("rps"), p.get("gaps"), p.get("delta"), p.get("overshoot"), [o.get("ns") for o in p.get("ops", [])])).encode()).hexdigest()[:16]

    def nontrivial(self, run):
        c = run.sim.counters
        return bool(c.get("probe.delayed") and c.get("probe.immediate")) or run.plan["kind"] in ("ctor",)


PROP = C19()
