"""C02 - response values reach the caller exactly as the agent encoded them."""

from __future__ import annotations

from .. import ber, gen, oracle, runner, snmp
from ..agent import Mib
from ..oracle import MATCH, V
from .base import Prop, community_session, v3_setup
from .c04 import _compare

ALL_KINDS = gen.DATA_KINDS


def name(rng):
    first = rng.choice([0, 1, 1, 1, 2])
    second = rng.randrange(0, 40)
    return (first, second) + tuple(gen.arc(rng, small=0.4) for _ in range(rng.randint(0, 8)))


def vb_opts(rng):
    o = {}
    if rng.random() < 0.15:
        o["w"] = gen.len_width(rng)
    if rng.random() < 0.1:
        o["ow"] = rng.choice([1, 2])
    return o


class C02(Prop):
    id = "C02"
    rule = (
        "plans: responses built by the independent BER encoder from model values of every supported type, boundary-biased (INTEGER over i64 "
        "incl. +-2^(8k-1), +-2^(8k); unsigned 32/64 with and without leading zero octet; sub-identifiers up to 2^32-1; long-form lengths at value, "
        "varbind, list, PDU level; REAL in ISO 6093 NR1/NR2/NR3, special values and binary form with bases 2/8/16, scale 0-3, signed exponents of "
        "1-3 octets), 0..40 varbinds with each type at every position, carried in v1/v2c/v3 (plain, auth, DES, AES) and read through get / get_many "
        "(scripted replies) and getnext / getbulk (RFC agent over a MIB of such values), sync and async, after earlier traffic on pooled and "
        "cipher-private buffers. oracle: Python value and dotted key equal the model's denotation (type-exact, NaN by isnan, -0.0 by sign). "
        "also: long-form lengths of 1..126 octets on values and on every header element (widths), Opaque / OCTET STRING contents that look like BER (net-snmp float wrappers, nested TLVs), BOOLEAN TRUE octets other than ff, kilobyte strings, names and OID values under 0.x / 2.x incl. 2.40 and beyond; no prediction for replies beyond 4080 octets. non-trivial = at least one non-default value compared; distinct = abstract trace + multiset of (type, content length) delivered"
    )
    quick_runs = 15000
    thorough_runs = 250000

    def families(self, tier):
        return [("scripted", 3), ("walk", 2)]

    def expected_counters(self, tier):
        return ["probe.value-compared"] + ["probe.kind." + k for k in ALL_KINDS] + ["probe.long-form-value", "probe.real-binary", "probe.real-decimal", "probe.real-special", "probe.int-8-octets", "probe.unsigned-no-leading-zero", "probe.arc-5-octets", "probe.decrypted", "probe.many-varbinds"]

    def gen(self, rng, family, tier):
        flavour = rng.choice(["sync", "async"])
        cfgname = rng.choice(["v1", "v2c", "v2c", "v3-noauth", "v3-md5", "v3-sha", "v3-md5-des", "v3-sha-aes", "v3-sha-des", "v3-md5-aes"])
        agent = {"mib": [], "communities": [], "cap": rng.choice([1, 3, 10, 50])}
        if cfgname.startswith("v3"):
            a, sess = v3_setup(rng, cfgname[3:], discover=rng.random() < 0.3, ktypes=["localized", "master"])
            agent.update(a)
            agent["time_window"] = False
        else:
            sess = community_session(rng, cfgname)
            agent["communities"] = [sess["community"]]
        sess["timeout_ns"] = 1_000_000_000
        ops, scripts = [], {}
        opid = 0
        if sess["version"] == "v3":
            opid += 1
            ops.append({"id": opid, "s": 0, "op": "refresh"})
        kinds = [k for k in ALL_KINDS if not (cfgname == "v1" and k == "counter64" and family == "walk")]
        if family == "walk":
            base = name(rng)[: rng.randint(2, 4)]
            rows = {}
            for _ in range(rng.choice([1, 3, 8, 20, 40])):
                o = base + tuple(gen.arc(rng, small=0.4) for _ in range(rng.randint(1, 3)))
                rows[o] = gen.value(rng, kinds)
            agent["mib"] = [[gen.oid_text(o), v] for o, v in sorted(rows.items())]
            for _ in range(rng.randint(1, 2)):
                opid += 1
                m = rng.choice(["getnext", "getbulk"]) if sess["version"] != "v1" else "getnext"
                op = {"id": opid, "s": 0, "op": "walk", "method": m, "oid": gen.oid_text(base), "limit": 100}
                if rng.random() < 0.3:
                    op["limit"] = rng.choice([1, 2, 3])  # abandoned after a few rows; the next walk starts afresh
                if m == "getbulk":
                    op["max_rep"] = rng.choice([1, 2, 5, 20, 50])
                ops.append(op)
        else:
            for _ in range(rng.randint(1, 4)):
                opid += 1
                if rng.random() < 0.45:
                    o = gen.oid_text(name(rng))
                    ops.append({"id": opid, "s": 0, "op": "get", "oid": o})
                    vbs = [[o, gen.value(rng, kinds), vb_opts(rng)]]
                else:
                    n = rng.choice([1, 2, 3, 5, 12, 40])
                    names = []
                    while len(names) < n:
                        x = gen.oid_text(name(rng))
                        if x not in names:
                            names.append(x)
                    ops.append({"id": opid, "s": 0, "op": "get_many", "oids": names})
                    vbs = [[o, gen.value(rng, kinds), vb_opts(rng)] for o in names]
                    if rng.random() < 0.15:
                        # the agent is free to answer under other names: below joint-iso-itu-t (2) the second
                        # arc is unbounded (X.690 8.19.4: first subidentifier 80 + Y, several octets if need be)
                        for vb in vbs:
                            if rng.random() < 0.5:
                                vb[0] = gen.oid_text((2, gen.second_arc_under_2(rng)) + tuple(gen.arc(rng, small=0.4) for _ in range(rng.randint(0, 4))))
                        seen_names = set()
                        vbs = [vb for vb in vbs if not (vb[0] in seen_names or seen_names.add(vb[0]))]
                item = {"k": "custom", "pdu": "response", "varbinds": vbs}
                if rng.random() < 0.2:
                    item["opts"] = {"w": rng.choice([0, 2, 3, gen.len_width(rng)]), "vw": rng.choice([0, 2, 3, gen.len_width(rng)])}
                if rng.random() < 0.04 and not (sess.get("user") or {}).get("priv"):
                    # a reply that fills the client's receive buffer to the last octet (or misses by one or two)
                    item["varbinds"].append([gen.oid_text(name(rng)), ["octets", "5a" * 3000]])
                    item["fit_total"] = rng.choice([4080, 4080, 4079, 4078, 4000])
                if rng.random() < 0.25:
                    item["rewrite"] = {"widths": gen.widths(rng, sess["version"] == "v3")}
                if sess["version"] == "v3" and rng.random() < 0.15:
                    item.setdefault("rewrite", {})["max-size"] = rng.choice([484, 1472, 65507, 65536, 2**31 - 2, 2**31 - 1])
                scripts["%d:1" % opid] = {"replies": [item]}
        if family == "walk" and rng.random() < 0.3:
            for k in range(1, 12):
                scripts["%d:%d" % (opid, k)] = {"replies": [{"k": "genuine", "rewrite": {"widths": gen.widths(rng, sess["version"] == "v3")}}]}
        return {"flavour": flavour, "agent": agent, "sessions": [sess], "ops": ops, "scripts": scripts, "latency_ns": 1_000_001, "poison": rng.randrange(256)}

    def check(self, run):
        out = []
        shapes = []
        sess = run.sess_cfg[0]
        for res in run.results:
            op = res["op"]
            if op["op"] in ("get", "get_many"):
                exs = run.exchanges(res)
                if len(exs) != 1:
                    out.append(V("C02.request-not-sent", "%s: %s" % (op["op"], res.get("exc"))))
                    continue
                kind, label, _ = oracle.exchange_verdict(run, 0, exs[0])
                if kind == oracle.UNKNOWN or (kind == "TIMEOUT" and not exs[0]["rx"]):
                    # no prediction (a reply larger than the receive buffer may be cut by the kernel),
                    # or nothing reached the socket at all (a minimised plan without its reply)
                    run.sim.count("probe.no-prediction")
                    continue
                if kind != MATCH:
                    out.append(V("C02.reply-not-delivered", "well-formed %s reply ended as %s: %s" % (op["op"], kind, res.get("exc", {}).get("msg"))))
                    continue
                self._probes(run, label["varbinds"], shapes, label.get("encrypted"))
                exp = oracle.expect_get(label) if op["op"] == "get" else oracle.expect_get_many(label)
                for v in _compare(res, exp, "%s of %s" % (op["op"], [x[1][0] for x in label["varbinds"]][:6])):
                    v.oracle = v.oracle.replace("C04.", "C02.")
                    if label["varbinds"]:
                        v.key = {"kind": _blame(res, label)}
                    out.append(v)
            elif op["op"] == "walk":
                if "exc" in res:
                    out.append(V("C02.walk-raised", res["exc"]["exc"]))
                    continue
                if any(run.dgrams[d]["label"].get("why") == "larger-than-receive-buffer" for ex in run.exchanges(res) for d in ex["rx"]):
                    run.sim.count("probe.no-prediction")
                    continue
                base = ber.parse_oid_text(op["oid"])
                rows = Mib(run.plan["agent"]["mib"]).below(base, (lambda v: v[0] == "counter64") if sess["version"] == "v1" else None)
                self._probes(run, [[ber.oid_text(o), v] for o, v in rows], shapes, bool(sess.get("user", {}).get("priv")))
                got = res["ok"]["items"]
                end = res["ok"]["end"]
                for i, (o, v) in enumerate(rows[: op.get("limit", 100)]):
                    if i >= len(got):
                        out.append(V("C02.walk-wrong-value", "walk (%s) stopped before %s = %r (end %s)" % (op["method"], ber.oid_text(o), v, end if isinstance(end, str) else end["exc"] + ": " + end["msg"]), kind=v[0]))
                        break
                    k, val = got[i]
                    if k != ber.oid_text(o):
                        out.append(V("C02.wrong-key", "walk yielded key %s for %s" % (k, ber.oid_text(o)), kind=v[0]))
                        break
                    if not snmp.same_value(runner.denorm(val), snmp.denote(v)):
                        out.append(V("C02.wrong-value", "walk (%s): %s encoded as %r delivered as %r" % (op["method"], k, v, val), kind=v[0]))
                        break
        run.c02 = sorted(shapes)
        return out

    def _probes(self, run, vbs, shapes, encrypted):
        c = run.sim.count
        if len(vbs) >= 12:
            c("probe.many-varbinds")
        for o, v in vbs:
            c("probe.value-compared")
            c("probe.kind." + v[0])
            if encrypted:
                c("probe.decrypted")
            opts = v[2] if len(v) > 2 else {}
            if opts.get("w"):
                c("probe.long-form-value")
            if v[0] == "real" and v[1]:
                f = int(v[1][:2], 16)
                c("probe.real-binary" if f & 0x80 else ("probe.real-special" if f & 0x40 else "probe.real-decimal"))
            if v[0] == "int" and (v[1] >= 2**55 or v[1] < -(2**55)):
                c("probe.int-8-octets")
            if v[0] in snmp.UNSIGNED_KINDS and opts.get("lz") is False and v[1].bit_length() % 8 == 0 and v[1]:
                c("probe.unsigned-no-leading-zero")
            if any(a >= 2**28 for a in ber.parse_oid_text(o)):
                c("probe.arc-5-octets")
            shapes.append(v[0][:4] + str(len(str(v[1])) if len(v) > 1 else 0))

    def abstract(self, run):
        from ..engine import abstract_trace

        return abstract_trace(run) + "|" + ",".join(getattr(run, "c02", [])[:40])

    def nontrivial(self, run):
        return run.sim.counters.get("probe.value-compared", 0) > 0


def _blame(res, label):
    """The type of the first varbind whose delivered value differs (for the finding key)."""
    try:
        if res["op"]["op"] == "get":
            return label["varbinds"][0][1][0]
        got = runner.denorm(res["ok"]) if "ok" in res else {}
        for o, v in label["varbinds"]:
            if snmp.is_data(v) and not (o in got and snmp.same_value(got[o], snmp.denote(v))):
                return v[0]
    except Exception:  # noqa: BLE001
        pass
    return "?"


PROP = C02()
