"""C17 - oversized requests fail cleanly; buffer code stays in bounds (simulation part)."""

from __future__ import annotations

from .. import ber, gen, oracle, snmp
from ..oracle import V
from .base import Prop, v3_setup

MIN_CAPACITY = 484  # RFC 3417: every SNMP entity must accept messages of at least 484 octets


def predicted_sizes(run, cfg, op, tracker_user):
    """(lo, hi) bounds of the request's encoded size, from the reference encoder only."""
    oids = [ber.parse_oid_text(o) for o in (op["oids"] if "oids" in op else [op["oid"]])]
    vbs = [(o, ["null"]) for o in oids]
    out = []
    for rid in (0, 2**31 - 1):
        pdu = snmp.pdu_node(snmp.PDU_GET, rid, 0, 0, vbs)
        if cfg["version"] != "v3":
            ver = 0 if cfg["version"] == "v1" else 1
            out.append(len(snmp.community_msg(ver, cfg.get("community", "public").encode(), pdu).encode()))
            continue
        u = cfg["user"]
        eng = bytes.fromhex(cfg["engine_id"])
        sc = snmp.scoped_pdu_node(eng, b"", pdu).encode()
        flags = (1 if u.get("auth") else 0) | (2 if u.get("priv") else 0)
        if u.get("priv"):
            block = 8 if u["priv"]["alg"] == 1 else 16
            pad = (0 if rid == 0 else block - 1)
            data = ber.prim(0x04, sc + b"\0" * pad)
            privp = b"\0" * 8
        else:
            data = snmp.scoped_pdu_node(eng, b"", pdu)
            privp = b""
        usm_f = dict(engine_id=eng, boots=0 if rid == 0 else 2**31 - 1, time=0 if rid == 0 else 2**31 - 1, user=u["name"].encode(), auth=b"\0" * 12 if u.get("auth") else b"", priv=privp)
        out.append(len(snmp.v3_msg(rid, 2048, flags, usm_f, data).encode()))
    return min(out), max(out)


class C17(Prop):
    id = "C17"
    rule = (
        "simulation part: one or two sessions {v1, v2c, v3 +-auth +-priv} issue a sweep of 12-40 get_many requests whose reference-predicted size "
        "grows octet by octet (one more arc, one more OID, or a longer community / user name per step) across 127/128, 255/256 and the buffer "
        "capacity, at the level of a single OID, a varbind, the varbind list, the PDU, the scoped PDU and the whole message; each call must either "
        "raise SnmpEncodeError with NO datagram on the wire or send one complete, strictly decodable datagram carrying exactly the requested OIDs; "
        "outcomes must be monotone in size with an (inferred) threshold >= 484 octets; after every failure a small request on the same and on "
        "another session must be well-formed (capacity exhaustion mid-serialisation is the injected fault, the pooled buffer is the history). The "
        "Rust/Miri buffer harness is a separate engine (see evidence key bufsim). non-trivial = the sweep crossed a length-form boundary or the "
        "capacity; distinct = (config, sweep kind, first size, steps)"
    )
    quick_runs = 1500
    thorough_runs = 20000

    def pre_check(self, tier, seed):
        """Second engine: seeded operation sequences on the real Buffer/BufferPool
        against a Vec model, natively and under Miri."""
        from .. import bufsim

        ev, viols = bufsim.check(tier, seed)
        out = []
        for line in viols[:5]:
            out.append((bufsim.write_replay(line, tier), "C17.bufsim", line))
        return ev, out

    def families(self, tier):
        return [("oid-arcs", 3), ("oid-count", 3), ("community", 2), ("username", 1), ("capacity", 4), ("walk-long-oid", 2)]

    def expected_counters(self, tier):
        return ["probe.sent-checked", "probe.encode-error-nothing-sent", "probe.crossed-127", "probe.crossed-255", "probe.crossed-capacity", "probe.after-failure-same-session", "probe.after-failure-other-session", "probe.long-form-2-octets", "probe.v3-priv-sweep", "probe.oid-tlv-long-form", "probe.wire-poison-differential"]

    def gen(self, rng, family, tier):
        flavour = rng.choice(["sync", "async"])
        cfgname = rng.choice(["v1", "v2c", "v3-noauth", "v3-md5", "v3-sha-des", "v3-md5-aes"])
        if family == "community":
            cfgname = rng.choice(["v1", "v2c"])
        if family == "username":
            cfgname = rng.choice(["v3-noauth", "v3-sha", "v3-sha-aes"])
        agent = {"mib": [], "communities": [], "echo": True}
        steps = rng.randint(12, 40 if tier == "thorough" else 24)
        sessions = []
        if cfgname.startswith("v3"):
            a, sess = v3_setup(rng, cfgname[3:], discover=False, ktypes=["localized"])
            agent.update(a)
            agent["time_window"] = False
        else:
            sess = {"version": cfgname, "community": "public"}
            agent["communities"] = ["public"]
        sess["timeout_ns"] = 50_000_000
        sessions.append(sess)
        other = {"version": "v2c", "community": "other", "timeout_ns": 50_000_000}
        agent["communities"].append("other")
        sessions.append(other)
        ops = []
        opid = 0

        def small(s):
            nonlocal opid
            opid += 1
            return {"id": opid, "s": s, "op": "get_many", "oids": ["1.3.6.1.2.1.1.%d.0" % rng.randrange(1, 9) for _ in range(rng.randint(1, 3))], "probe": True}

        if family in ("community", "username"):
            # one session per step: the credential length is the swept quantity
            start = rng.choice([100, 110, 120, 230, 240, 250, 3900, 3950, 4000, 4020]) if family == "community" else rng.choice([60, 70, 80, 190, 200, 3850, 3900, 3950])
            sessions = [other]
            for j in range(steps):
                n = start + j
                if family == "community":
                    c = "c" * n
                    agent["communities"].append(c)
                    sessions.append({"version": cfgname, "community": c, "timeout_ns": 50_000_000})
                else:
                    u = dict(sess["user"])
                    u["name"] = "n" * n
                    agent["users"].append(u)
                    sessions.append({"version": "v3", "user": u, "engine_id": sess["engine_id"], "timeout_ns": 50_000_000})
                opid += 1
                ops.append({"id": opid, "s": len(sessions) - 1, "op": "get", "oid": "1.3.6.1.2.1.1.1.0"})
                if rng.random() < 0.3:
                    ops.append(small(0))
            return {"flavour": flavour, "agent": agent, "sessions": sessions, "ops": ops, "latency_ns": 1001, "sweep": family, "poison": rng.randrange(256)}
        if family == "walk-long-oid":
            # walks whose base (and, through the agent, follow-up) OIDs cross the 127/128-octet TLV boundary
            agent.pop("echo", None)
            start = rng.choice([118, 122, 124, 250])
            rows = []
            for j in range(rng.randint(3, 10)):
                arcs = (1, 3, 6) + tuple(rng.randrange(0, 128) for _ in range(start + j))
                rows.append([gen.oid_text(arcs), ["int", j]])
            agent["mib"] = rows
            for j in range(rng.randint(1, 3)):
                opid += 1
                m = rng.choice(["getnext", "getbulk", "fetch"]) if cfgname != "v1" else "getnext"
                ops.append({"id": opid, "s": 0, "op": "walk", "method": m, "oid": rng.choice(["1.3.6", gen.oid_text((1, 3, 6) + tuple(rng.randrange(0, 128) for _ in range(start - 3 + j)))]), "limit": 12, "max_rep": rng.choice([1, 3])})
                if m != "getbulk":
                    del ops[-1]["max_rep"]
            return {"flavour": flavour, "agent": agent, "sessions": sessions, "ops": ops, "latency_ns": 1001, "sweep": family, "poison": rng.randrange(256)}
        if family == "oid-arcs":
            # a single OID growing by one arc per step: OID TLV, varbind, list, PDU cross 127/128 or 255/256
            start = rng.choice([100, 105, 110, 115, 118, 225, 235, 240, 245])
            pre = [gen.oid_text(gen.oid(rng)) for _ in range(rng.choice([0, 0, 1]))]
            for j in range(steps):
                opid += 1
                arcs = (1, 3) + tuple(rng.randrange(0, 128) for _ in range(start + j))
                ops.append({"id": opid, "s": 0, "op": "get_many", "oids": pre + [gen.oid_text(arcs)]})
        elif family == "oid-count":
            per = rng.choice([8, 12, 20])
            start = rng.choice([90, 100, 110, 220, 230, 240, 60])
            for j in range(steps):
                opid += 1
                # k full OIDs plus one whose length is tuned so that the total grows by one octet per step
                total = start + j
                oids = []
                left = total
                while left > per + 6:
                    oids.append((1, 3) + tuple(rng.randrange(0, 128) for _ in range(per)))
                    left -= per + 1 + 6
                oids.append((1, 3) + tuple(rng.randrange(0, 128) for _ in range(max(1, left - 6))))
                ops.append({"id": opid, "s": 0, "op": "get_many", "oids": [gen.oid_text(o) for o in oids]})
        else:
            # around the capacity: many OIDs, the last one tuned
            per = rng.choice([10, 20, 30, 60])
            start = rng.choice([3880, 3900, 3920, 3940, 3960, 3980, 4000, 4020, 4040, 4060]) - (150 if cfgname.startswith("v3") else 0) + rng.randrange(0, 20)
            for j in range(steps):
                opid += 1
                total = start + j * rng.choice([1, 1, 1, 2])
                oids = []
                left = total
                while left > per + 8 + per + 8:
                    oids.append((1, 3) + tuple(rng.randrange(0, 128) for _ in range(per)))
                    left -= per + 1 + 6
                oids.append((1, 3) + tuple(rng.randrange(0, 128) for _ in range(max(1, left - 7))))
                ops.append({"id": opid, "s": 0, "op": "get_many", "oids": [gen.oid_text(o) for o in oids]})
                if rng.random() < 0.4:
                    ops.append(small(rng.choice([0, 1])))
        return {"flavour": flavour, "agent": agent, "sessions": sessions, "ops": ops, "latency_ns": 1001, "sweep": family, "poison": rng.randrange(256)}

    def execute(self, plan):
        """Run twice with different fill bytes in never-written buffer memory: what goes on the
        wire must not depend on them (the client 'never exposes bytes that were never written')."""
        import copy

        from .. import runner

        run = runner.execute(plan)
        run.alt = None
        if any(s.get("version") == "v3" for s in plan["sessions"]) or plan.get("sweep") == "capacity":
            p2 = copy.deepcopy(plan)
            p2["poison"] = (plan.get("poison", 0xA5) ^ 0x3C) & 0xFF
            run.alt = runner.execute(p2)
            run.sim.count("probe.wire-poison-differential")
        return run

    def check(self, run):
        out = []
        if run.alt is not None:
            a = [ev[4] for ev in run.sim.hist if ev[0] == "tx"]
            b = [ev[4] for ev in run.alt.sim.hist if ev[0] == "tx"]
            if a != b:
                i = next((i for i in range(min(len(a), len(b))) if a[i] != b[i]), min(len(a), len(b)))
                out.append(V("C17.wire-depends-on-unwritten-memory", "datagram #%d differs when never-written buffer memory is filled with another byte (%d vs %d octets)" % (i + 1, len(a[i]) // 2 if i < len(a) else 0, len(b[i]) // 2 if i < len(b) else 0), sweep=run.plan["sweep"]))
        if run.plan.get("sweep") == "walk-long-oid":
            for res in run.results:
                for ex in run.exchanges(res):
                    dec = run.wire_dec[(res["s"], ex["serial"])]
                    run.sim.count("probe.sent-checked")
                    if not dec.get("ok"):
                        out.append(V("C17.sent-datagram-malformed", "a %d-octet %s request is not strictly decodable: %s" % (len(ex["hex"]) // 2, res["op"].get("method"), dec.get("error")), sweep="walk-long-oid"))
                    elif any(len(ber.oid_content(o)) >= 128 for o in dec["pdu"]["varbinds"]):
                        run.sim.count("probe.oid-tlv-long-form")
            run.c17 = ("walk-long-oid", [], len(run.results))
            return out
        recs = {}  # config key -> list of (lo, hi, sent_size | None)
        failed_before = {}
        any_failed = False
        sizes = []
        for res in sorted(run.results, key=lambda r: (r["t0"], r["i"])):
            s = res["s"]
            cfg = run.sess_cfg[s]
            op = res["op"]
            exs = run.exchanges(res)
            exc = res.get("exc")
            key = (cfg["version"], bool(cfg.get("user", {}).get("auth")), bool(cfg.get("user", {}).get("priv")))
            lo, hi = predicted_sizes(run, cfg, op, None)
            if any_failed and op.get("probe"):
                run.sim.count("probe.after-failure-same-session" if failed_before.get(s) else "probe.after-failure-other-session")
            if exc and "PySnmpEncodeError" in exc["mro"]:
                any_failed = True
                failed_before[s] = True
                if exs:
                    out.append(V("C17.encode-error-but-datagram-sent", "SnmpEncodeError raised but %d octets went out on the wire (%s...)" % (len(exs[0]["hex"]) // 2, exs[0]["hex"][:60]), sweep=run.plan["sweep"]))
                else:
                    run.sim.count("probe.encode-error-nothing-sent")
                recs.setdefault(key, []).append((lo, hi, None))
                if hi <= MIN_CAPACITY:
                    out.append(V("C17.small-request-refused", "a request of at most %d octets failed with SnmpEncodeError" % hi, sweep=run.plan["sweep"]))
                continue
            if not exs:
                out.append(V("C17.nothing-sent-no-encode-error", "request of %d..%d octets: nothing on the wire, outcome %s" % (lo, hi, exc["exc"] if exc else res.get("ok")), sweep=run.plan["sweep"]))
                continue
            if len(exs) != 1:
                out.append(V("C17.several-datagrams", "one get_many produced %d datagrams" % len(exs)))
                continue
            ex = exs[0]
            raw = bytes.fromhex(ex["hex"])
            dec = run.wire_dec[(s, ex["serial"])]
            run.sim.count("probe.sent-checked")
            sizes.append(len(raw))
            if not dec.get("ok"):
                out.append(V("C17.sent-datagram-malformed", "a %d-octet request is not strictly decodable: %s" % (len(raw), dec.get("error")), sweep=run.plan["sweep"]))
                continue
            want = [ber.parse_oid_text(o) for o in (op["oids"] if "oids" in op else [op["oid"]])]
            if list(dec["pdu"]["varbinds"]) != want:
                out.append(V("C17.sent-datagram-incomplete", "%d-octet request carries %d OIDs, %d were asked (or they differ)" % (len(raw), len(dec["pdu"]["varbinds"]), len(want)), sweep=run.plan["sweep"]))
            if not (lo <= len(raw) <= hi):
                out.append(V("C17.size-not-as-predicted", "datagram has %d octets, the reference predicts %d..%d" % (len(raw), lo, hi), sweep=run.plan["sweep"]))
            if len(raw) > 258:
                run.sim.count("probe.long-form-2-octets")
            if any(len(ber.oid_content(o)) >= 128 for o in want):
                run.sim.count("probe.oid-tlv-long-form")
            if key[2]:
                run.sim.count("probe.v3-priv-sweep")
            recs.setdefault(key, []).append((lo, hi, len(raw)))
            if exc and not exc["documented"]:
                out.append(V("C17.undocumented-exception", "%s raised %s" % (op["op"], exc["exc"])))
        for key, lst in recs.items():
            sent = [x[2] for x in lst if x[2] is not None]
            if sent:
                if min(sent) <= 127 < max(sent):
                    run.sim.count("probe.crossed-127")
                if min(sent) <= 255 < max(sent):
                    run.sim.count("probe.crossed-255")
            fails = [x for x in lst if x[2] is None]
            if fails and sent:
                run.sim.count("probe.crossed-capacity")
                smallest_fail_hi = min(x[1] for x in fails)
                if smallest_fail_hi <= max(sent):
                    out.append(V("C17.not-monotone", "a request of at most %d octets failed with SnmpEncodeError while a %d-octet request was sent (config %s)" % (smallest_fail_hi, max(sent), key), sweep=run.plan["sweep"]))
        run.c17 = (run.plan["sweep"], sizes[:1], len(sizes))
        return out

    def abstract(self, run):
        import hashlib

        return hashlib.sha256(repr((getattr(run, "c17", None), [c.get("version") for c in run.sess_cfg][:2], run.plan["flavour"])).encode()).hexdigest()[:16]

    def nontrivial(self, run):
        c = run.sim.counters
        return any(c.get(k) for k in ("probe.crossed-127", "probe.crossed-255", "probe.crossed-capacity", "probe.oid-tlv-long-form"))


PROP = C17()
