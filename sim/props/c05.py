"""C05 - a walk returns the whole subtree, in order, once - by GetNext or GetBulk."""

from __future__ import annotations

import copy

from .. import ber, gen, oracle, runner, snmp
from ..agent import Mib
from ..oracle import V
from .base import Prop, community_session, v3_setup

WALK_KINDS = ["int32", "octets", "oid", "ipaddr", "counter32", "gauge32", "timeticks", "opaque", "counter64", "uinteger32", "bool", "objdesc"]


def walk_mib(rng):
    """MIB with multi-octet arcs, siblings sharing byte prefixes, rows before and after."""
    base = gen.oid(rng, prefix=(1, 3, 6, 1), min_extra=0, max_extra=3, small=0.5)
    top = None
    if rng.random() < 0.2:
        # subtrees elsewhere in the tree: under 0, under 1.x, under 2.x (x <= 39: what the API accepts);
        # the rows that follow 2.39.* are 2.40 and beyond (first subidentifier 120 and more)
        top = rng.choice([(0, 0), (0, 39), (1, 0), (1, 2), (1, 39), (2, 0), (2, 5), (2, 39)])
        base = gen.oid(rng, prefix=top, min_extra=0, max_extra=2, small=0.5)
    rows = {}
    n = rng.choice([0, 1, 2, 5, 12, 30])
    for _ in range(n):
        r = rng.random()
        if r < 0.65:
            o = gen.oid(rng, prefix=base, min_extra=1, max_extra=3, small=0.5)
        elif r < 0.8 and len(base) > 2:
            last = base[-1]
            sib = rng.choice([last + 1, max(0, last - 1), last * 128 + rng.randrange(128), (last << 7) | 0, last + 128, last ^ 0x80])
            o = base[:-1] + (sib & 0xFFFFFFFF,) + tuple(gen.arc(rng) for _ in range(rng.randint(0, 2)))
        elif r < 0.9:
            o = base  # the base itself as a leaf
        elif top is not None:
            # neighbours of the top-level arcs
            first = rng.choice([top[0], top[0], max(0, top[0] - 1), min(2, top[0] + 1)])
            second = gen.second_arc_under_2(rng) if first == 2 and rng.random() < 0.6 else rng.choice([0, top[1], max(0, top[1] - 1), min(39, top[1] + 1), 39])
            o = (first, second) + tuple(gen.arc(rng) for _ in range(rng.randint(0, 3)))
        else:
            o = gen.oid(rng, prefix=(1, 3), min_extra=1, max_extra=5)
        if len(o) >= 2 and (o[0] == 2 or o[1] <= 39) and 80 + o[1] < 2**32:
            rows[o] = gen.value(rng, WALK_KINDS)
    if rows and rng.random() < 0.12:
        # very long names: many sub-identifiers (up to the SMI limit of 128), each taking two or more octets
        for _ in range(rng.randint(1, 3)):
            o = base + tuple(rng.choice([128, 200, 16383, 16384, 2**32 - 1]) for _ in range(rng.randint(40, max(41, 126 - len(base)))))
            rows[o] = gen.value(rng, WALK_KINDS)
    return base, [[gen.oid_text(o), v] for o, v in sorted(rows.items())]


def expected_items(rows, base, v1):
    m = Mib(rows)
    skip = (lambda v: v[0] == "counter64") if v1 else None
    return [(ber.oid_text(o), snmp.denote(v)) for o, v in m.below(base, skip)]


class C05(Prop):
    id = "C05"
    rule = (
        "plans: a random finite MIB (multi-octet arcs, byte-prefix siblings, rows before/after/at the base, empty MIB) and a base OID "
        "(existing subtree, leaf, absent, last subtree); the SAME plan is walked under every combination of {v1 getnext/fetch, v2c getnext/getbulk/fetch, "
        "v3 getnext/getbulk} x {sync, async} with random max_repetitions 1..50 and agent cap 1..50, RFC-correct reference agent; every walk must equal "
        "the model slice (and hence each other). separate benign-fault family: duplicates/delays/stale replies must not change the list, a "
        "lost datagram may only turn a suffix into TimeoutError. also subtrees under 0.x / 1.x / 2.x (rows at 2.40 and beyond follow 2.39.*), kilobyte values (the agent shortens GetBulk responses to a size budget), a second iterator interleaved on the same session. non-trivial = the subtree is non-empty or ends in endOfMibView/noSuchName; "
        "distinct = hash of (MIB shape, base kind, repetitions, cap) plus abstract trace"
    )
    quick_runs = 5000
    thorough_runs = 80000

    def families(self, tier):
        return [("equiv", 3), ("benign-faults", 2), ("history", 2)]

    def expected_counters(self, tier):
        return ["probe.walk-checked", "probe.nonempty-subtree", "probe.end-of-mib", "probe.v1-nosuchname-end", "probe.bulk-multiple-requests", "probe.bulk-cap-below-maxrep", "fault.duplicate", "fault.stale", "fault.reply-drop", "probe.suffix-timeout", "probe.walk-after-abandoned-walk", "probe.walk-retried-after-timeout"]

    def variants(self, rng, family):
        vs = []
        for ver in ("v1", "v2c", "v3"):
            for method in ("getnext", "getbulk", "fetch"):
                if ver == "v1" and method == "getbulk":
                    continue
                for fl in ("sync", "async"):
                    vs.append((ver, method, fl))
        if family == "benign-faults":
            return [rng.choice(vs)]
        rng.shuffle(vs)
        return vs[: rng.choice([4, 6, 8])]

    def gen(self, rng, family, tier):
        base, rows = walk_mib(rng)
        r = rng.random()
        if r < 0.15 and rows:
            base = ber.parse_oid_text(rng.choice(rows)[0])  # a leaf
        elif r < 0.25:
            base = base + (gen.arc(rng),)  # probably absent
        elif r < 0.35 and rows:
            base = ber.parse_oid_text(rows[-1][0])[:-1] or base  # last subtree
        if len(base) < 2:
            base = (1, 3)
        if base[1] > 39:
            # the API may refuse a second arc beyond 39 (C08 leaves that open): walk the neighbourhood instead
            base = (base[0], 39)
        level = rng.choice(gen.SEC_LEVELS)
        a3, s3 = v3_setup(rng, level, discover=False, ktypes=["localized", "master"])
        comm = rng.choice(["public", "c0"])
        agent = {"mib": rows, "cap": rng.randint(1, 50), "communities": [comm], "cut_after_end": rng.random() < 0.5, "time_window": False}
        agent.update(a3)
        max_rep = rng.choice([1, 2, 3, 5, 10, 20, 50])
        variants = []
        for ver, method, fl in self.variants(rng, family):
            if ver == "v3":
                sess = dict(s3)
            else:
                sess = {"version": ver, "community": comm}
            sess["timeout_ns"] = 1_000_000_000
            sess["max_repetitions"] = max_rep
            op = {"id": 1, "s": 0, "op": "walk", "method": method, "oid": gen.oid_text(base), "limit": 400}
            if method == "getbulk" and rng.random() < 0.5:
                op["max_rep"] = max_rep
                if rng.random() < 0.15:
                    op["max_rep"] = 0  # "any max_repetitions": a per-call 0 falls back to the session's default
            sessions = [sess]
            ops = [op]
            if family == "benign-faults" and rng.random() < 0.5:
                op["retry"] = 6  # the application keeps iterating after a timeout
            if family == "history":
                # earlier walks in the same process - abandoned after a few rows, on this or on another
                # session, from this or another base - must not leak into the walk under test
                other = {"version": "v2c", "community": comm, "timeout_ns": 1_000_000_000, "max_repetitions": rng.choice([2, 5, 20])}
                sessions = [sess, other]
                pre = []
                for j in range(rng.randint(1, 3)):
                    ps = rng.choice([0, 1])
                    pm = rng.choice(["getbulk", "fetch", "getnext"])
                    if ps == 0 and ver == "v1":
                        pm = rng.choice(["fetch", "getnext"])
                    pre.append({"id": 100 + j, "s": ps, "op": "walk", "method": pm, "oid": rng.choice([gen.oid_text(base), "1.3.6.1", "1.3"]), "limit": rng.choice([1, 2, 3])})
                ops = pre + [op]
                if rng.random() < 0.35:
                    pmeth = rng.choice(["getnext", "getbulk"]) if ver != "v1" else "getnext"
                    op["partner"] = {"method": pmeth, "oid": rng.choice([gen.oid_text(base), "1.3.6.1", "1.3", gen.oid_text(base[:-1]) if len(base) > 2 else "1.3"]), "max_rep": rng.choice([1, 3, 20])}
            variants.append({"flavour": fl, "sessions": sessions, "ops": ops})
        scripts = {}
        if family == "benign-faults":
            for k in range(1, 40):
                r = rng.random()
                lat = 1_000_001
                if r < 0.15:
                    scripts["1:%d" % k] = {"replies": [{"k": "genuine", "copies": rng.randint(2, 3)}]}
                elif r < 0.3 and k > 1:
                    scripts["1:%d" % k] = {"replies": [{"k": "stale", "of": "1:%d" % rng.randint(1, k - 1), "delay_ns": lat - 1000}, {"k": "genuine"}]}
                elif r < 0.4:
                    scripts["1:%d" % k] = {"replies": [{"k": "genuine", "delay_ns": rng.randrange(2_000_001, 900_000_001, 2)}]}
                elif r < 0.45:
                    scripts["1:%d" % k] = {"replies": [{"k": "none"}]}
                elif r < 0.5:
                    scripts["1:%d" % k] = {"req": "drop"}
        return {"agent": agent, "variants": variants, "scripts": scripts, "latency_ns": 1_000_001, "base": gen.oid_text(base)}

    def execute(self, plan):
        runs = []
        for var in plan["variants"]:
            p = {k: v for k, v in plan.items() if k != "variants"}
            p.update(copy.deepcopy(var))
            runs.append(runner.execute(p))
        first = runs[0]
        first.all_runs = runs
        for r in runs[1:]:
            first.session_failures += r.session_failures
            for k, v in r.sim.counters.items():
                first.sim.counters[k] = first.sim.counters.get(k, 0) + v
            first.sim.hist.append(("variant", r.sim.trace_hash()))
        return first

    def check(self, run):
        out = []
        plan = run.plan
        base = ber.parse_oid_text(plan["base"])
        rows = plan["agent"]["mib"]
        lost = any(("req" in s and s["req"] == "drop") or any(i.get("k") == "none" for i in s.get("replies", [])) for s in plan.get("scripts", {}).values())
        for r in run.all_runs:
            mine = [x for x in r.results if x["op"].get("id") == 1]
            if not mine:
                continue
            res = mine[0]
            if len(r.results) > 1:
                run.sim.count("probe.walk-after-abandoned-walk")
            sess = r.sess_cfg[0]
            method = res["op"]["method"]
            tag = "%s/%s/%s" % (sess["version"], method, r.plan["flavour"])
            exp = expected_items(rows, base, sess["version"] == "v1")
            run.sim.count("probe.walk-checked")
            if exp:
                run.sim.count("probe.nonempty-subtree")
            if "exc" in res:
                out.append(V("C05.walk-raised", "%s: walk construction raised %s" % (tag, res["exc"]["exc"]), variant=tag))
                continue
            got = [(k, runner.denorm(v)) for k, v in res["ok"]["items"]]
            end = res["ok"]["end"]
            nreq = len(r.exchanges(res))
            if isinstance(end, dict) and len(r.results) > 1 and False:
                pass
            if nreq > 2 and method != "getnext":
                run.sim.count("probe.bulk-multiple-requests")
            if plan["agent"]["cap"] < sess.get("max_repetitions", 20):
                run.sim.count("probe.bulk-cap-below-maxrep")
            m = Mib(rows)
            if m.next(base + (2**32,) * 3) is None or not rows:
                run.sim.count("probe.end-of-mib")
                if sess["version"] == "v1":
                    run.sim.count("probe.v1-nosuchname-end")
            ok_full = end == "stop" and _same(got, exp)
            if res["ok"].get("retried_at"):
                run.sim.count("probe.walk-retried-after-timeout")
            if ok_full:
                continue
            if lost and isinstance(end, dict) and end["exc"] == "TimeoutError" and _same(got, exp[: len(got)]):
                run.sim.count("probe.suffix-timeout")
                continue
            out.append(
                V(
                    "C05.walk-differs",
                    "%s from %s: got %d items end=%s, model has %d; first difference at %s" % (tag, plan["base"], len(got), end if isinstance(end, str) else end["exc"], len(exp), _first_diff(got, exp)),
                    variant=tag.split("/")[1],
                )
            )
        return out

    def shrink_extra(self, plan, test):
        """Keep a single failing variant."""
        import copy

        if len(plan.get("variants", [])) <= 1:
            return plan
        for v in plan["variants"]:
            cand = copy.deepcopy(plan)
            cand["variants"] = [v]
            if test(cand):
                return cand
        return plan

    def abstract(self, run):
        from ..engine import abstract_trace

        p = run.plan
        return abstract_trace(run) + "|%d|%d|%s" % (len(p["agent"]["mib"]), p["agent"]["cap"], len(run.all_runs))

    def nontrivial(self, run):
        return True

    def sample_view(self, plan):
        p = dict(plan)
        p["variants"] = [(v["sessions"][0]["version"], v["ops"][0]["method"], v["flavour"]) for v in plan["variants"]]
        return p


def _same(got, exp):
    if len(got) != len(exp):
        return False
    return all(a[0] == b[0] and snmp.same_value(a[1], b[1]) for a, b in zip(got, exp))


def _first_diff(got, exp):
    for i, (a, b) in enumerate(zip(got, exp)):
        if a[0] != b[0] or not snmp.same_value(a[1], b[1]):
            return "#%d got %r expected %r" % (i, a, b)
    if len(got) != len(exp):
        i = min(len(got), len(exp))
        return "#%d got %r expected %r" % (i, got[i] if i < len(got) else None, exp[i] if i < len(exp) else None)
    return "end condition"


PROP = C05()
