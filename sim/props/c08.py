"""C08 - the OID sent is the OID asked for; invalid OID text is refused."""

from __future__ import annotations

import re

from .. import ber, gen, oracle, runner
from ..oracle import V
from .base import Prop, community_session, v3_setup

EDGE_ARCS = [0, 1, 39, 40, 127, 128, 16383, 16384, 2**21 - 1, 2**21, 2**28 - 1, 2**28, 2**31, 2**32 - 1]
PART = re.compile(r"^\+?[0-9]+$")


def lenient_parse(s):
    """Numeric denotation of dotted text, or None when it has none."""
    parts = s.split(".")
    arcs = []
    for p in parts:
        if not PART.match(p) or len(p) > 40:
            return None
        arcs.append(int(p))
    return tuple(arcs)


def canonical(s, arcs):
    return s == ".".join(str(a) for a in arcs)


def encodable(arcs):
    if arcs is None or len(arcs) < 2:
        return False
    if any(a > 2**32 - 1 for a in arcs):
        return False
    if arcs[0] > 2:
        return False
    if arcs[0] < 2 and arcs[1] > 39:
        return False
    return True


def must_accept(arcs):
    return encodable(arcs) and arcs[1] <= 39 and len(arcs) <= 128


def oid_string(rng):
    r = rng.random()
    if r < 0.45:
        # valid, boundary-biased
        n = rng.choice([2, 2, 3, 5, 9, 20, 64, 127, 128])
        arcs = [rng.choice([0, 1, 2]), rng.randrange(0, 40)] + [rng.choice(EDGE_ARCS) if rng.random() < 0.6 else rng.randrange(2**32) for _ in range(n - 2)]
        return ".".join(str(a) for a in arcs)
    valid = "1.3.6.1." + ".".join(str(rng.choice(EDGE_ARCS)) for _ in range(rng.randint(1, 4)))
    kind = rng.choice(["empty", "single", "empty-arc", "lead-dot", "trail-dot", "minus", "plus", "space", "letter", "too-big", "first-gt-2", "second-gt-39", "first-2-second-big", "lead-zero", "huge", "unicode-digit", "hex", "double-dot-mid"])
    if kind == "empty":
        return ""
    if kind == "single":
        return str(rng.choice([0, 1, 2, 3, 40]))
    if kind == "empty-arc":
        return "1..3.6"
    if kind == "lead-dot":
        return "." + valid
    if kind == "trail-dot":
        return valid + "."
    if kind == "minus":
        return "1.3.-6.1" if rng.random() < 0.5 else "-1.3.6"
    if kind == "plus":
        return rng.choice(["1.3.+6.1", "+1.3.6", "1.+3.6", "1.3.6.+" + str(rng.choice(EDGE_ARCS))])
    if kind == "space":
        return rng.choice(["1.3. 6.1", " 1.3.6", "1.3.6 ", "1 .3.6", "1.3.6.1\t"])
    if kind == "letter":
        return rng.choice(["1.3.6.a", "iso.3.6", "1.3.6.1x", "1.3.0x10", "1.3.6.1e3"])
    if kind == "too-big":
        return "1.3.6." + str(rng.choice([2**32, 2**32 + 1, 2**33, 2**64, 10**20]))
    if kind == "first-gt-2":
        return "%d.%d.6" % (rng.choice([3, 4, 6, 7, 100, 2**32 - 1]), rng.randrange(0, 40))
    if kind == "second-gt-39":
        return "%d.%d.5" % (rng.choice([0, 1]), rng.choice([40, 41, 100, 255, 2**32 - 1]))
    if kind == "first-2-second-big":
        return "2.%d.5" % rng.choice([40, 47, 48, 175, 176, 1000, 2**32 - 1])
    if kind == "lead-zero":
        return rng.choice(["01.3.6", "1.03.6", "1.3.006", "1.3.6.00", "1.3.6." + "0" * rng.choice([5, 9, 10, 11, 20, 30]) + str(rng.choice(EDGE_ARCS)), "0" * rng.choice([9, 12]) + "1.3.6.1"])
    if kind == "huge":
        return "1.3." + ".".join(["1"] * rng.choice([200, 500]))
    if kind == "unicode-digit":
        return "1.3.٦.1"
    if kind == "hex":
        return "1.3.ff"
    return "1.3..6"


class C08(Prop):
    id = "C08"
    rule = (
        "plans: dotted strings from a grammar - valid OIDs with arcs at every base-128 width boundary (0, 127/128, 16383/16384, 2^21-1/2^21, "
        "2^28-1/2^28, 2^32-1), 2..128 arcs, first/second arc limits - and malformed ones (empty, single arc, empty arcs, leading/trailing dot, "
        "signs, spaces, letters, hex, non-ASCII digits, arc > 2^32-1, first > 2, second > 39, leading zeros, 500 arcs) handed to get / get_many / "
        "getnext / getbulk on v1/v2c/v3 sessions, sync and async, against an agent that echoes the names it received. oracle: exception and no "
        "datagram, or a datagram carrying exactly the canonical encoding of the denoted OID; strictly valid strings must be accepted; echoed names "
        "render back to the identical text. non-trivial = a boundary arc or a malformed string was used; distinct = the string itself"
    )
    quick_runs = 30000
    thorough_runs = 400000

    def families(self, tier):
        return [("strings", 1)]

    def expected_counters(self, tier):
        return ["probe.accepted-and-checked", "probe.refused-nothing-sent", "probe.must-accept", "probe.echo-checked", "probe.lenient-accepted", "probe.arc-2^32-1", "probe.128-arcs", "probe.via-walk", "probe.via-get-many"]

    def gen(self, rng, family, tier):
        flavour = rng.choice(["sync", "async"])
        ver = rng.choice(["v1", "v2c", "v3"])
        agent = {"mib": [], "communities": [], "echo": True}
        if ver == "v3":
            # (a session without engine id is used directly: its first operation runs the discovery itself)
            a, sess = v3_setup(rng, rng.choice(["noauth", "md5", "sha-aes", "md5-des"]), discover=rng.random() < 0.3, ktypes=["localized"])
            agent.update(a)
            agent["time_window"] = False
        else:
            sess = community_session(rng, ver)
            agent["communities"] = [sess["community"]]
        sess["timeout_ns"] = 100_000_000
        ops = []
        for opid in range(1, rng.randint(2, 5)):
            k = rng.choice(["get", "get", "get_many", "getnext", "getbulk"])
            if k == "getbulk" and ver == "v1":
                k = "getnext"
            if k == "get":
                ops.append({"id": opid, "s": 0, "op": "get", "oid": oid_string(rng)})
            elif k == "get_many":
                ops.append({"id": opid, "s": 0, "op": "get_many", "oids": [oid_string(rng) for _ in range(rng.randint(1, 3))]})
            else:
                ops.append({"id": opid, "s": 0, "op": "walk", "method": k, "oid": oid_string(rng), "limit": 1})
        return {"flavour": flavour, "agent": agent, "sessions": [sess], "ops": ops, "latency_ns": 1001}

    def check(self, run):
        out = []
        strings = []
        for res in run.results:
            op = res["op"]
            texts = [op["oid"]] if "oid" in op else list(op["oids"])
            strings += texts
            den = [lenient_parse(t) for t in texts]
            exs = run.exchanges(res)
            # the session's own engine id discovery / time sync (empty Get requests) is not the request
            prelim = [ex for ex in exs if run.wire_dec[(res["s"], ex["serial"])].get("ok") and run.wire_dec[(res["s"], ex["serial"])]["pdu"]["type"] == "get" and not run.wire_dec[(res["s"], ex["serial"])]["pdu"]["varbinds"]]
            own = [ex for ex in exs if ex not in prelim]
            sent = own[0] if own else None
            if prelim:
                run.sim.count("probe.discovery-before-request")
                if any(a is None or not encodable(a) for a in den):
                    bad = [t for t, a in zip(texts, den) if a is None or not encodable(a)]
                    out.append(V("C08.sent-before-refusal", "%r has no OID denotation, yet %d discovery datagram(s) went out before it was refused" % (bad[0][:80], len(prelim)), op=op["op"]))
                    continue
            if op["op"] == "walk":
                run.sim.count("probe.via-walk")
            if op["op"] == "get_many":
                run.sim.count("probe.via-get-many")
            for a in den:
                if a and 2**32 - 1 in a:
                    run.sim.count("probe.arc-2^32-1")
                if a and len(a) == 128:
                    run.sim.count("probe.128-arcs")
            all_must = all(must_accept(a) and canonical(t, a) for t, a in zip(texts, den))
            if sent is None:
                # refused: fine unless every string is strictly valid
                refused = "exc" in res or (isinstance(res.get("ok"), dict) and isinstance(res["ok"].get("end"), dict))
                run.sim.count("probe.refused-nothing-sent")
                if all_must:
                    out.append(V("C08.valid-oid-refused", "strictly valid %r was not sent: %s" % (texts if len(texts) > 1 else texts[0][:80], (res.get("exc") or res.get("ok"))), op=op["op"]))
                if not refused:
                    out.append(V("C08.nothing-sent-no-exception", "%r: no datagram and no exception" % (texts,), op=op["op"]))
                exc = res.get("exc")
                if exc and not exc["documented"]:
                    out.append(V("C08.undocumented-exception", "%r raised %s" % (texts[0][:60], exc["exc"]), exc=exc["exc"]))
                continue
            if all_must:
                run.sim.count("probe.must-accept")
            dec = run.wire_dec[(res["s"], sent["serial"])]
            if not dec.get("ok"):
                out.append(V("C08.request-not-decodable", "%r produced an undecodable request: %s" % (texts, dec.get("error")), op=op["op"]))
                continue
            wire = list(dec["pdu"]["varbinds"])
            run.sim.count("probe.accepted-and-checked")
            if any(a is None or not encodable(a) for a in den):
                bad = [t for t, a in zip(texts, den) if a is None or not encodable(a)]
                out.append(V("C08.malformed-text-sent", "%r has no OID denotation but a request went out with %s" % (bad[0][:80], [ber.oid_text(o) for o in wire][:3]), op=op["op"]))
                continue
            if any(not canonical(t, a) for t, a in zip(texts, den)):
                run.sim.count("probe.lenient-accepted")
            if wire != list(den):
                out.append(V("C08.sent-different-oid", "asked %r, wire carries %s" % ([t[:60] for t in texts], [ber.oid_text(o)[:60] for o in wire]), op=op["op"]))
                continue
            # canonical encoding: the strict decoder already refused padded arcs; compare bytes too
            # echo: names render back to the same text
            if op["op"] == "get_many" and "ok" in res:
                got = runner.denorm(res["ok"])
                want = {".".join(str(x) for x in a) for a in den}
                run.sim.count("probe.echo-checked")
                if set(got) != want:
                    out.append(V("C08.echo-text-differs", "echoed names %s, asked %s" % (sorted(got)[:3], sorted(want)[:3]), op=op["op"]))
        run.c08 = strings
        return out

    def shrink_extra(self, plan, test):
        """Drop arcs from the dotted strings while the same oracle keeps failing."""
        import copy

        best = plan
        for n, op in enumerate(plan.get("ops", [])):
            for key in ("oid",):
                if key not in op:
                    continue
                parts = best["ops"][n][key].split(".")
                i = len(parts) - 1
                while i >= 2 and len(parts) > 2:
                    cand = copy.deepcopy(best)
                    trial = parts[:i] + parts[i + 1 :]
                    cand["ops"][n][key] = ".".join(trial)
                    if test(cand):
                        best, parts = cand, trial
                    i -= 1
        return best

    def abstract(self, run):
        import hashlib

        return hashlib.sha256(repr(getattr(run, "c08", [])).encode()).hexdigest()[:16]

    def nontrivial(self, run):
        return True


PROP = C08()
