"""C15 - everything the library encodes is minimal and round-trips (seam-visible projection)."""

from __future__ import annotations

from .. import ber, gen, oracle, runner
from ..oracle import MATCH, V
from .base import Prop, community_session, v3_setup

BOUNDARY = []
for k in range(1, 9):
    for b in (2 ** (8 * k - 1), -(2 ** (8 * k - 1)), 2 ** (8 * k), -(2 ** (8 * k))):
        BOUNDARY.append(b)
BOUNDARY = [b for b in BOUNDARY if -(2**63) <= b <= 2**63 - 1]


def i64_value(rng, tier):
    r = rng.random()
    if r < 0.35:
        return rng.randrange(-32768, 32768)
    if r < 0.8:
        b = rng.choice(BOUNDARY)
        w = 4096 if tier == "quick" else 65536
        return max(-(2**63), min(2**63 - 1, b + rng.randrange(-w, w + 1)))
    k = rng.randint(1, 8)
    return rng.randrange(-(2 ** (8 * k - 1)), 2 ** (8 * k - 1))


class C15(Prop):
    id = "C15"
    rule = (
        "seam-visible projection of the codec law. (a) every datagram the client emits in these runs must pass the strict reference decoder "
        "(definite, minimal lengths; minimal INTEGER and sub-identifier contents; no trailing bytes at any level) and carry the intended fields; "
        "(b) echo: the agent sends engineBoots/engineTime = any i64 in minimal encoding, the client decodes them and must re-encode them in its next "
        "request minimally and denoting the value sent (or the previous one if it refused the reply): sweeps of all 1-2-octet values (thorough: "
        "complete), +-2^12 (thorough +-2^16) neighbourhoods of every +-2^(8k-1), +-2^(8k), random elsewhere; (c) getbulk max-repetitions over the same "
        "domain must appear on the wire as given; (d) walk follow-up requests echo the agent's OID (arcs to 2^32-1). non-trivial = at least one "
        "echoed INTEGER outside -128..127 or a multi-octet arc; distinct = set of echoed values"
    )
    quick_runs = 8000
    thorough_runs = 200000

    def families(self, tier):
        return [("echo", 4), ("echo-sweep", 3), ("maxrep", 2), ("oid-echo", 2), ("after-failure", 1)]

    def expected_counters(self, tier):
        return ["probe.echo-checked", "probe.echo-negative", "probe.echo-8-octets", "probe.echo-boundary", "probe.maxrep-checked", "probe.oid-echo-checked", "probe.oid-echo-5-octet-arc", "probe.tx-strict-decoded", "probe.sweep-block", "probe.after-failure-checked"]

    def gen_indexed(self, rng, family, tier, index):
        flavour = rng.choice(["sync", "async"])
        agent = {"mib": gen.mib(rng, n=3), "communities": []}
        if family in ("echo", "echo-sweep"):
            a, sess = v3_setup(rng, "noauth", discover=False)
            agent.update(a)
            agent["time_window"] = False
            sess["timeout_ns"] = 100_000_000
            oid = agent["mib"][0][0] if agent["mib"] else "1.3.6"
            ops, scripts = [], {}
            if family == "echo-sweep":
                # deterministic blocks so that a thorough batch covers every 1-2 octet value
                nblocks = 65536 // 32
                blk = (index // 3) % nblocks
                vals = list(range(-32768 + blk * 32, -32768 + (blk + 1) * 32))
            else:
                vals = [i64_value(rng, tier) for _ in range(rng.randint(4, 24))]
            for i in range(0, len(vals), 2):
                opid = i // 2 + 1
                ops.append({"id": opid, "s": 0, "op": "get", "oid": oid})
                b, t = vals[i], vals[i + 1] if i + 1 < len(vals) else 0
                scripts["%d:1" % opid] = {"replies": [{"k": "genuine", "rewrite": {"boots": b, "time": t}}]}
            ops.append({"id": len(vals) // 2 + 2, "s": 0, "op": "get", "oid": oid})
            return {"flavour": flavour, "agent": agent, "sessions": [sess], "ops": ops, "scripts": scripts, "latency_ns": 1001, "family_kind": family}
        if family == "after-failure":
            # an encoding that fails half-way (too large) leaves a partly filled pooled buffer behind:
            # whatever is encoded next, by any session, must still be one minimal message
            s0 = community_session(rng, rng.choice(["v1", "v2c"]))
            s1 = community_session(rng, "v2c")
            agent["communities"] = [s0["community"], s1["community"]]
            for c in (s0, s1):
                c["timeout_ns"] = 50_000_000
            ops = []
            opid = 0
            for _ in range(rng.randint(1, 3)):
                opid += 1
                n = rng.choice([150, 300, 600])
                ops.append({"id": opid, "s": rng.choice([0, 1]), "op": "get_many", "oids": [gen.oid_text(gen.oid(rng, min_extra=8, max_extra=14, small=0.1)) for _ in range(n)]})
                for _ in range(rng.randint(1, 3)):
                    opid += 1
                    ops.append({"id": opid, "s": rng.choice([0, 1]), "op": rng.choice(["get", "get"]), "oid": gen.oid_text(gen.oid(rng))})
            return {"flavour": flavour, "agent": agent, "sessions": [s0, s1], "ops": ops, "scripts": {}, "latency_ns": 1001, "family_kind": family}
        ver = rng.choice(["v2c", "v3"])
        if ver == "v3":
            a, sess = v3_setup(rng, rng.choice(["noauth", "sha", "md5-aes"]), discover=False, ktypes=["localized"])
            agent.update(a)
            agent["time_window"] = False
        else:
            sess = community_session(rng, ver)
            agent["communities"] = [sess["community"]]
        sess["timeout_ns"] = 100_000_000
        ops, scripts = [], {}
        if family == "maxrep":
            for opid in range(1, rng.randint(2, 6)):
                n = i64_value(rng, tier)
                if n == 0:
                    n = 1  # 0 means "session default" to the API
                ops.append({"id": opid, "s": 0, "op": "walk", "method": "getbulk", "oid": "1.3.6", "max_rep": n, "limit": 1})
        else:
            base = (1, 3, 6, 1)
            rows = []
            for _ in range(rng.randint(2, 6)):
                rows.append([gen.oid_text(base + tuple(rng.choice([0, 127, 128, 16383, 16384, 2**21 - 1, 2**21, 2**28 - 1, 2**28, 2**32 - 1, rng.randrange(2**32)]) for _ in range(rng.randint(1, 4)))), ["int", 1]])
            if rng.random() < 0.4:
                # names of 128+ content octets: the follow-up request needs long-form lengths around the name
                for _ in range(rng.randint(1, 3)):
                    rows.append([gen.oid_text(base + (rng.randrange(1, 9),) + tuple(rng.choice([2**32 - 1, 2**28, 127, 16384]) for _ in range(rng.choice([26, 30, 40, 60])))), ["int", 2]])
            agent["mib"] = rows
            ops.append({"id": 1, "s": 0, "op": "walk", "method": rng.choice(["getnext", "getbulk"]), "oid": "1.3.6.1", "limit": 20, "max_rep": rng.choice([1, 2])})
            if ops[0]["method"] == "getnext":
                del ops[0]["max_rep"]
        return {"flavour": flavour, "agent": agent, "sessions": [sess], "ops": ops, "scripts": scripts, "latency_ns": 1001, "family_kind": family}

    def gen(self, rng, family, tier):
        return self.gen_indexed(rng, family, tier, rng.randrange(10**6))

    def check(self, run):
        out = []
        fam = run.plan.get("family_kind")
        vals = []
        prev = (0, 0)
        expect = None
        if fam == "echo-sweep":
            run.sim.count("probe.sweep-block")
        for res in run.results:
            exs = run.exchanges(res)
            for n, ex in enumerate(exs):
                dec = run.wire_dec[(res["s"], ex["serial"])]
                run.sim.count("probe.tx-strict-decoded")
                if fam == "after-failure":
                    run.sim.count("probe.after-failure-checked")
                if not dec.get("ok"):
                    out.append(V("C15.not-minimal-or-malformed", "emitted datagram refused by the strict decoder: %s (%s)" % (dec.get("error"), ex["hex"][:160])))
                    continue
                if fam in ("echo", "echo-sweep"):
                    u = dec["m"]["usm"]
                    got = (u["boots"], u["time"])
                    if expect is not None:
                        run.sim.count("probe.echo-checked")
                        for g, e, p, name in ((got[0], expect[0], prev[0], "boots"), (got[1], expect[1], prev[1], "time")):
                            if e < 0:
                                run.sim.count("probe.echo-negative")
                            if e >= 2**55 or e < -(2**55):
                                run.sim.count("probe.echo-8-octets")
                            if any(abs(e - b) <= 1 for b in BOUNDARY):
                                run.sim.count("probe.echo-boundary")
                            vals.append(e)
                            if g != e and g != p:
                                out.append(V("C15.echo-not-minimal-or-wrong", "agent sent engine %s = %d; the next request carries %d (previous value %d)" % (name, e, g, p), octets=len(ber.int_content(e)), negative=e < 0))
                    prev = got
                    # what the reply to this request will carry
                    kind, label, _ = oracle.exchange_verdict(run, 0, ex)
                    expect = (label["boots"], label["time"]) if kind == MATCH else None
                elif fam == "maxrep":
                    run.sim.count("probe.maxrep-checked")
                    want = res["op"]["max_rep"]
                    vals.append(want)
                    if dec["pdu"]["type"] != "getbulk" or dec["pdu"]["max_repetitions"] != want:
                        out.append(V("C15.max-repetitions-differs", "getbulk(max_repetitions=%d) sent %s with max-repetitions %s" % (want, dec["pdu"]["type"], dec["pdu"].get("max_repetitions")), octets=len(ber.int_content(want)), negative=want < 0))
            if fam == "oid-echo" and res["op"]["op"] == "walk" and "ok" in res:
                items = [ber.parse_oid_text(k) for k, _ in res["ok"]["items"]]
                asked = [run.wire_dec[(0, ex["serial"])] for ex in exs]
                for n, w in enumerate(asked[1:], 1):
                    if not w.get("ok"):
                        continue
                    run.sim.count("probe.oid-echo-checked")
                    o = w["pdu"]["varbinds"][0]
                    if any(a >= 2**28 for a in o):
                        run.sim.count("probe.oid-echo-5-octet-arc")
                    vals.append(o)
                    if o not in items:
                        out.append(V("C15.oid-echo-differs", "follow-up request asks for %s which the agent never sent (yielded %s)" % (ber.oid_text(o), [ber.oid_text(i) for i in items][:4])))
        run.c15 = vals
        return out

    def abstract(self, run):
        import hashlib

        return hashlib.sha256(repr(getattr(run, "c15", [])).encode()).hexdigest()[:16]

    def nontrivial(self, run):
        for v in getattr(run, "c15", []):
            if isinstance(v, tuple):
                if any(a > 127 for a in v):
                    return True
            elif not -128 <= v <= 127:
                return True
        return False


PROP = C15()
