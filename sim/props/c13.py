"""C13 - engine discovery and time synchronisation follow the agent."""

from __future__ import annotations

from .. import gen
from ..oracle import V
from . import v3common
from .base import Prop


class C13(Prop):
    id = "C13"
    rule = (
        "plans: v3 sessions {noAuth, MD5, SHA} x {none, DES, AES} x {password, master, localized} x {engine id given, discovered} x {sync, async} "
        "against an agent whose identity changes between replies: engine ids of 5..32 octets, boots/time anywhere in 0..2^31-1, restarts, clock "
        "jumps, idle gaps below/above the 150 s window, discovery Reports with real or zero boots/time, plus lost/undecodable/non-matching "
        "replies (which must NOT be adopted). oracle over the wire history: first message of a discovering session (empty engine id, default "
        "user, no security, reportable), then engine id / boots / time of the most recent accepted message, user and keys of the configured "
        "user localized to the learned engine id. non-trivial = the stamped boots/time changed at least once after discovery or an engine id "
        "was learned; distinct = abstract trace + sequence of distinct (boots,time) stamps"
    )
    quick_runs = 10000
    thorough_runs = 150000

    def families(self, tier):
        return [("history", 4), ("two-engines", 1)]

    def expected_counters(self, tier):
        return ["probe.discovery-first-message", "probe.engine-id-learned", "probe.boots-changed", "probe.time-changed", "probe.given-engine-first-message", "probe.stamp-checked", "env.restart", "env.jump", "agent.report.notInTimeWindows", "probe.not-adopted-after-skip"]

    def gen(self, rng, family, tier):
        if family == "two-engines":
            return v3common.two_engine_plan(rng, tier, [l for l in gen.SEC_LEVELS if l != "noauth"])
        return v3common.history_plan(rng, tier, gen.SEC_LEVELS)

    def check(self, run):
        out = []
        first = {}
        stamps = {}
        for s, res, n, ex, dec, raw, exp, deferred, tr in v3common.iter_v3_tx(run):
            cfg = run.sess_cfg[s]
            m = dec.get("m")
            if m is None:
                out.append(V("C13.not-decodable", "datagram not strictly decodable: %s" % dec.get("error")))
                continue
            u = m["usm"]
            if s not in first:
                first[s] = True
                if not cfg.get("engine_id"):
                    run.sim.count("probe.discovery-first-message")
                    if u["engine_id"] != b"" or u["user"] != b"" or m["flags"] & 3 or not (m["flags"] & 4) or u["auth"] or u["priv"]:
                        out.append(V("C13.discovery-message", "first message of a session without engine id: engine id %s user %r flags %d" % (u["engine_id"].hex(), u["user"], m["flags"])))
                else:
                    run.sim.count("probe.given-engine-first-message")
                    if u["engine_id"] != bytes.fromhex(cfg["engine_id"]) or u["user"] != cfg["user"]["name"].encode():
                        out.append(V("C13.given-engine-id-not-used", "session created with engine id %s sent %s user %r in its first message" % (cfg["engine_id"], u["engine_id"].hex(), u["user"])))
            if exp is None:
                continue
            run.sim.count("probe.stamp-checked")
            if u["engine_id"] != exp["engine_id"]:
                out.append(V("C13.engine-id", "message carries engine id %s, most recent accepted message says %s" % (u["engine_id"].hex(), exp["engine_id"].hex())))
            if (u["boots"], u["time"]) != (exp["boots"], exp["time"]):
                out.append(V("C13.boots-time", "message stamped boots=%d time=%d, most recent accepted message carried boots=%d time=%d (accepted so far: %d)" % (u["boots"], u["time"], exp["boots"], exp["time"], tr.accepted)))
            if u["user"] != exp["user"]:
                out.append(V("C13.user", "message carries user %r, expected %r" % (u["user"], exp["user"])))
            # keys localized to the learned engine id
            v = v3common.check_mac(cfg, dec, raw, deferred)
            if v is not None:
                v.oracle = v.oracle.replace("C09.", "C13.keys-")
                out.append(v)
            st = stamps.setdefault(s, [])
            if not st or st[-1] != (u["boots"], u["time"]):
                if st and not deferred:
                    if st[-1][0] != u["boots"]:
                        run.sim.count("probe.boots-changed")
                    else:
                        run.sim.count("probe.time-changed")
                st.append((u["boots"], u["time"]))
            if ex["rx"] and tr.known:
                # a consumed datagram that was skipped/rejected must not be adopted: seen by the next stamp
                from .. import oracle

                kind, _, verdicts = oracle.exchange_verdict(run, s, ex)
                if any(v[0] in (oracle.SKIP, oracle.REJECT) for v in verdicts):
                    run.sim.count("probe.not-adopted-after-skip")
            if not cfg.get("engine_id") and not deferred and n == 0:
                run.sim.count("probe.engine-id-learned")
        run.c13_stamps = stamps
        return out

    def abstract(self, run):
        from ..engine import abstract_trace

        return abstract_trace(run) + "|" + ";".join("%d:%d" % (s, len(v)) for s, v in sorted(getattr(run, "c13_stamps", {}).items()))

    def nontrivial(self, run):
        return any(len(v) >= 2 for v in getattr(run, "c13_stamps", {}).values())


PROP = C13()
