"""Common base for the property checks."""

from __future__ import annotations

from .. import gen, oracle, snmp
from ..oracle import V

COMMON_ASSUMPTIONS = [
    "reference BER/SNMP/USM/agent models in /verif/sim are correct (self-tested against X.690, RFC 3414 A.3, FIPS 46/197, SP 800-38A vectors at every invocation)",
    "CPython 3.11, hashlib, asyncio behave as documented",
    "the cfg(gufo_snmp_verif) seam only replaces datagram I/O, entropy, clock reads and buffer fill",
    "sampled exploration: a clean batch is evidence, not proof",
]


class Prop:
    id = "C00"
    rule = ""
    assumptions = COMMON_ASSUMPTIONS
    quick_runs = 2000
    thorough_runs = 40000

    def runs(self, tier):
        return self.quick_runs if tier == "quick" else self.thorough_runs

    def families(self, tier):
        return [("default", 1)]

    def gen(self, rng, family, tier):
        raise NotImplementedError

    def check(self, run):
        raise NotImplementedError

    def nontrivial(self, run):
        return any(k.startswith("fault.") for k in run.sim.counters) or len(run.results) > 0

    def expected_counters(self, tier):
        return []


def community_session(rng, version, flavour=None, **kw):
    cfg = {"version": version, "community": rng.choice(["public", "c0", "private-community-string", ""]), "timeout_ns": gen.timeout_ns(rng)}
    cfg.update(kw)
    return cfg


def v3_setup(rng, level, discover=None, ktypes=None):
    """Returns (agent_part, session_cfg) for one v3 user."""
    eng = gen.engine_id(rng)
    u = gen.user(rng, level, eng, ktypes=ktypes)
    agent = {"engine_id": eng, "users": [u], "boots": rng.choice([0, 1, 7, 2**31 - 2, rng.randrange(2**31 - 1)]), "time0": rng.choice([0, 1, 1000, 2**31 - 200, rng.randrange(2**31 - 200)]), "discovery_time": rng.choice(["zero", "real"])}
    sess = {"version": "v3", "user": u, "timeout_ns": gen.timeout_ns(rng)}
    if discover is None:
        discover = rng.random() < 0.5
    if not discover:
        sess["engine_id"] = eng
    return agent, sess


def needs_refresh(sess):
    return sess.get("version") == "v3"


def first_exchange(run, res):
    ex = run.exchanges(res)
    return ex
