"""Common base for the property checks."""

from __future__ import annotations

from .. import gen, oracle, snmp
from ..oracle import V

COMMON_ASSUMPTIONS = [
    "reference BER/SNMP/USM/agent models in /verif/sim are correct (self-tested against X.690, RFC 3414 A.3, FIPS 46/197, SP 800-38A vectors at every invocation)",
    "CPython 3.11, hashlib, asyncio behave as documented",
    "the cfg(gufo_snmp_verif) seam only replaces datagram I/O, entropy, clock reads and buffer fill",
    "sampled exploration: a clean batch is evidence, not proof",
]


class Prop:
    id = "C00"
    rule = ""
    assumptions = COMMON_ASSUMPTIONS
    quick_runs = 2000
    thorough_runs = 40000

    def runs(self, tier):
        return self.quick_runs if tier == "quick" else self.thorough_runs

    def families(self, tier):
        return [("default", 1)]

    def gen(self, rng, family, tier):
        raise NotImplementedError

    def check(self, run):
        raise NotImplementedError

    def nontrivial(self, run):
        return any(k.startswith("fault.") for k in run.sim.counters) or len(run.results) > 0

    def expected_counters(self, tier):
        return []


def ctor_variations(rng, cfg):
    """Constructor arguments that must not change what the session does."""
    if rng.random() < 0.15 and (cfg["version"] == "v3" or (cfg["version"] == "v2c" and not cfg.get("user"))):
        cfg["version_auto"] = True  # version=None: v3 iff a user is given, else v2c
    if rng.random() < 0.1 and not cfg.get("version_auto"):
        cfg["version_int"] = True  # version=1 instead of SnmpVersion.v2c
    if rng.random() < 0.08 and cfg["version"] in ("v1", "v2c") and not cfg.get("version_auto"):
        cfg["spurious_user"] = True  # user= given although the version is stated as v1 / v2c: the version decides
    if rng.random() < 0.1:
        cfg["tos"] = rng.choice([0x10, 0x28, 0xB8])
    if rng.random() < 0.1:
        cfg["send_buffer"] = rng.choice([4096, 65536, 1 << 20])
    if rng.random() < 0.1:
        cfg["recv_buffer"] = rng.choice([4096, 65536, 1 << 20])
    return cfg


def community_session(rng, version, flavour=None, **kw):
    cfg = {"version": version, "community": rng.choice(["public", "c0", "private-community-string", "", "public", "L" * rng.choice([127, 128, 200, 256]), "public", "c0", "\u043f\u0443\u0431\u043b\u0438\u043a\u0430", "caf\u00e9 with space", "nul\x00inside", "caf\ufffd"]), "timeout_ns": gen.timeout_ns(rng)}
    cfg.update(kw)
    return ctor_variations(rng, cfg)


def v3_setup(rng, level, discover=None, ktypes=None):
    """Returns (agent_part, session_cfg) for one v3 user."""
    eng = gen.engine_id(rng)
    u = gen.user(rng, level, eng, ktypes=ktypes)
    agent = {"engine_id": eng, "users": [u], "boots": rng.choice([0, 1, 7, 2**31 - 2, rng.randrange(2**31 - 1)]), "time0": rng.choice([0, 1, 1000, 2**31 - 200, rng.randrange(2**31 - 200)]), "discovery_time": rng.choice(["zero", "real"])}
    sess = {"version": "v3", "user": u, "timeout_ns": gen.timeout_ns(rng)}
    if discover is None:
        discover = rng.random() < 0.5
    if not discover:
        sess["engine_id"] = eng
    elif rng.random() < 0.35:
        sess["engine_id_empty"] = True
    return agent, ctor_variations(rng, sess)


def needs_refresh(sess):
    return sess.get("version") == "v3"


def first_exchange(run, res):
    ex = run.exchanges(res)
    return ex


def multi_setup(rng, versions, levels=None, ktypes=None, discover_p=0.5, mib_rows=None):
    """Agent + sessions for a mixed-version run. versions: list of 'v1'|'v2c'|'v3'."""
    eng = gen.engine_id(rng)
    agent = {
        "engine_id": eng,
        "users": [],
        "communities": [],
        "boots": rng.choice([0, 1, 7, 2**31 - 2, rng.randrange(2**31 - 1)]),
        "time0": rng.choice([0, 1, 1000, 2**31 - 100000, rng.randrange(2**31 - 100000)]),
        "discovery_time": rng.choice(["zero", "real"]),
        "mib": mib_rows if mib_rows is not None else gen.mib(rng, n=rng.randint(2, 10)),
        "cap": rng.choice([1, 2, 5, 20]),
    }
    sessions = []
    for i, v in enumerate(versions):
        if v == "v3":
            level = rng.choice(levels or gen.SEC_LEVELS)
            u = gen.user(rng, level, eng, name="user%d" % i if rng.random() < 0.7 else rng.choice(["admin%d" % i, "u" * 31 + str(i)]), ktypes=ktypes)
            agent["users"].append(u)
            cfg = {"version": "v3", "user": u, "timeout_ns": gen.timeout_ns(rng)}
            if rng.random() >= discover_p:
                cfg["engine_id"] = eng
            elif rng.random() < 0.35:
                cfg["engine_id_empty"] = True
        else:
            cfg = community_session(rng, v)
            if cfg["community"] not in agent["communities"]:
                agent["communities"].append(cfg["community"])
        if rng.random() < 0.3:
            cfg["allow_bulk"] = rng.random() < 0.5
        if rng.random() < 0.5:
            cfg["max_repetitions"] = rng.choice([1, 2, 5, 10, 50])
        sessions.append(ctor_variations(rng, cfg))
    return agent, sessions


class V3Tracker:
    """Model of a v3 session's security state, driven only by what the history
    shows was *accepted* (acceptance model) - used by C03 and C13."""

    def __init__(self, run, s):
        cfg = run.sess_cfg[s]
        self.cfg = cfg
        self.user = cfg["user"]
        self.engine_id = bytes.fromhex(cfg["engine_id"]) if cfg.get("engine_id") else b""
        self.deferred = not cfg.get("engine_id")
        self.boots = 0
        self.time = 0
        self.known = True
        self.accepted = 0

    def cur_user(self):
        if self.deferred:
            return {"name": ""}
        return self.user

    def expected(self):
        u = self.cur_user()
        flags = (1 if u.get("auth") else 0) | (2 if u.get("priv") else 0)
        return {"user": u["name"].encode(), "engine_id": self.engine_id, "boots": self.boots, "time": self.time, "flags": flags}

    def observe(self, run, s, res, ex_index, ex):
        """Update from the outcome of one exchange. Returns the verdict kind."""
        kind, label, _ = oracle.exchange_verdict(run, s, ex)
        if kind == oracle.UNKNOWN:
            self.known = False
            return kind
        if kind == oracle.MATCH:
            self.accepted += 1
            self.boots = label["boots"]
            self.time = label["time"]
            if not self.engine_id:
                self.engine_id = bytes.fromhex(label["engine_id"])
            if self.deferred and ex_index == 0:
                # engine id discovery: by refresh() / entering the session, or - when the session is used
                # directly - by the first operation itself (it must not send anything as the placeholder user)
                self.deferred = False
        return kind
