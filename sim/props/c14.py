"""C14 - privacy salts never repeat and nothing confidential goes in clear."""

from __future__ import annotations

from .. import ber, gen
from ..oracle import V
from . import v3common
from .base import Prop


class C14(Prop):
    id = "C14"
    rule = (
        "plans: one or two v3 sessions with DES or AES issuing 20-400 (thorough: up to 20000) mixed requests under one key installation, "
        "interleaved with receives, timeouts, decode errors, agent restarts (DES salt embeds boots); the initial salt counter is forced through "
        "the entropy seam to sit just below the 2^32 (DES) / 2^64 (AES) wrap, or left random; requested OIDs carry two random 32-bit arcs. "
        "oracle per emitted datagram: priv flag, OCTET STRING msgData, 8-octet salt, DES = stamped boots || counter+1 mod 2^32, AES = counter+1 "
        "mod 2^64, all salts of the installation distinct, OID encodings and contextEngineID absent from the clear part. non-trivial = >= 20 "
        "encrypted datagrams or the counter wrapped; distinct = abstract trace + (first salt, count)"
    )
    quick_runs = 1200
    thorough_runs = 12000

    def families(self, tier):
        return [("wrap-des", 2), ("wrap-aes", 2), ("random-salt", 3), ("long", 1)]

    def expected_counters(self, tier):
        return ["probe.salt-checked", "probe.salt-forced-hit", "probe.des-wrap-crossed", "probe.aes-wrap-crossed", "probe.boots-changed-mid-installation", "probe.cleartext-scan", "probe.long-history"]

    def gen(self, rng, family, tier):
        if family == "wrap-des":
            levels = ["md5-des", "sha-des"]
        elif family == "wrap-aes":
            levels = ["md5-aes", "sha-aes"]
        else:
            levels = ["md5-des", "md5-aes", "sha-des", "sha-aes"]
        n = rng.randint(20, 60)
        if family == "long":
            n = rng.choice([200, 400]) if tier == "quick" else rng.choice([2000, 20000])
        discover = rng.random() < 0.5
        p = v3common.history_plan(rng, tier, levels, nsess=1, discover=discover, ktypes=["localized", "master"], long_run=n, big=False)
        if family == "long":
            # keep the reference ciphers out of the loop: the agent stays silent
            p["scripts"] = {}
            for op in p["ops"]:
                if "id" in op and op["op"] != "refresh":
                    p["scripts"]["%d:1" % op["id"]] = {"replies": [{"k": "none"}]}
            p["sessions"][0]["timeout_ns"] = 1_000_000
            p["ops"] = [o for o in p["ops"] if o["op"] not in ("walk",)]
        if family != "long":
            # replies that fail inside the decrypt path (ciphertext cut short, foreign salt) and stale copies
            ids = [o["id"] for o in p["ops"] if "id" in o and o["op"] in ("get", "get_many")]
            for oid_ in ids:
                r = rng.random()
                if r < 0.15:
                    p["scripts"]["%d:1" % oid_] = {"replies": [{"k": "genuine", "rewrite": {"cipher-trim": rng.randint(1, 9)}}] + ([{"k": "genuine", "delay_ns": 1_500_001}] if rng.random() < 0.5 else [])}
                elif r < 0.25:
                    p["scripts"]["%d:1" % oid_] = {"replies": [{"k": "genuine", "rewrite": {"salt": bytes(rng.randrange(256) for _ in range(8)).hex(), "msg-id": rng.choice(["same", "xor1"])}}, {"k": "genuine", "delay_ns": 1_500_001}]}
        if family == "random-salt" and rng.random() < 0.3:
            # a request too large to encode (SnmpEncodeError, nothing on the wire) between two others
            big = {"id": 90000, "s": 0, "op": "get_many", "oids": [gen.oid_text(gen.oid(rng, min_extra=8, max_extra=10, small=0.0)) for _ in range(400)]}
            pos = rng.randint(2, max(2, len(p["ops"]) - 1))
            p["ops"].insert(pos, big)
        if family.startswith("wrap"):
            near = rng.randint(1, max(2, n // 2))
            salt = ((2**32 if family == "wrap-des" else 2**64) - near) & 0xFFFFFFFFFFFFFFFF
            # entropy draws before the salt draw: none when the engine id is given, otherwise
            # request-id + msgID of the discovery request
            p["forced_random"] = ([rng.randrange(2**31), rng.randrange(2**31)] if discover else []) + [salt]
            p["forced_salt"] = salt
        return p

    def check(self, run):
        out = []
        oid_hist = {}
        seen = {}
        prev = {}
        prev_t = {}
        count = {}
        first = {}
        for s, res, n, ex, dec, raw, exp, deferred, tr in v3common.iter_v3_tx(run):
            cfg = run.sess_cfg[s]
            if not cfg["user"].get("priv") or deferred:
                continue
            m = dec.get("m")
            if m is None:
                out.append(V("C14.not-decodable", "datagram not strictly decodable: %s" % dec.get("error")))
                continue
            palg = cfg["user"]["priv"]["alg"]
            if not (m["flags"] & 2) or "encrypted" not in m:
                out.append(V("C14.sent-in-clear", "privacy configured but flags=%d and msgData %s" % (m["flags"], "encrypted" if "encrypted" in m else "plaintext")))
                continue
            salt = m["usm"]["priv"]
            run.sim.count("probe.salt-checked")
            if len(salt) != 8:
                out.append(V("C14.salt-length", "msgPrivacyParameters has %d octets" % len(salt)))
                continue
            count[s] = count.get(s, 0) + 1
            if s not in first:
                first[s] = salt
                fs = run.plan.get("forced_salt")
                if fs is not None:
                    want = (fs & 0xFFFFFFFF) if palg == 1 else fs
                    got = int.from_bytes(salt[4:], "big") if palg == 1 else int.from_bytes(salt, "big")
                    if got == want:
                        run.sim.count("probe.salt-forced-hit")
            if salt in seen.setdefault(s, set()):
                out.append(V("C14.salt-reused", "salt %s used twice under one key installation (message %d)" % (salt.hex(), count[s]), alg=palg))
            seen[s].add(salt)
            if palg == 1:
                ctr = int.from_bytes(salt[4:], "big")
                if salt[:4] != (m["usm"]["boots"] & 0xFFFFFFFF).to_bytes(4, "big"):
                    out.append(V("C14.des-salt-boots", "DES salt %s does not start with the stamped boots %d" % (salt.hex(), m["usm"]["boots"]), alg=1))
                mod = 2**32
                if s in prev and prev[s][1] != salt[:4]:
                    run.sim.count("probe.boots-changed-mid-installation")
            else:
                ctr = int.from_bytes(salt, "big")
                mod = 2**64
            if s in prev:
                if ctr != (prev[s][0] + 1) % mod:
                    # did a request that could not be encoded (and was not sent) come in between?
                    refused = sum(1 for r2 in run.results if r2["s"] == s and prev_t.get(s, -1) <= r2["t0"] <= res["t0"] and "exc" in r2 and "PySnmpEncodeError" in r2["exc"]["mro"] and r2 is not res)
                    out.append(V("C14.counter-step", "salt counter went from %d to %d (message %d)%s" % (prev[s][0], ctr, count[s], "; %d request(s) refused with SnmpEncodeError in between" % refused if refused else ""), alg=palg, after_encode_error=bool(refused) and (ctr - prev[s][0]) % mod == 1 + refused))
                if ctr < prev[s][0]:
                    run.sim.count("probe.des-wrap-crossed" if palg == 1 else "probe.aes-wrap-crossed")
            prev[s] = (ctr, salt[:4])
            prev_t[s] = res["t0"]
            # nothing of the scoped PDU readable anywhere in the datagram: the OIDs of this and of earlier
            # requests (two random 32-bit arcs each) cannot occur in ciphertext by chance
            run.sim.count("probe.cleartext-scan")
            if "pdu" in dec:
                for o in dec["pdu"]["varbinds"]:
                    enc = ber.oid_content(o)
                    if len(enc) >= 12:
                        oid_hist.setdefault(s, []).append((ber.oid_text(o), enc[3:]))
            for name, frag in oid_hist.get(s, [])[-12:]:
                if frag in raw:
                    out.append(V("C14.oid-in-clear", "the encoding of OID %s is readable in the datagram (offset %d of %d)" % (name, raw.find(frag), len(raw)), alg=palg))
                    break
        if any(c >= 200 for c in count.values()):
            run.sim.count("probe.long-history")
        run.c14 = (sorted((s, first[s].hex(), count[s]) for s in first))
        return out

    def abstract(self, run):
        from ..engine import abstract_trace

        return abstract_trace(run) + "|%r" % (getattr(run, "c14", None),)

    def nontrivial(self, run):
        c = run.sim.counters
        return any(x[2] >= 20 for x in getattr(run, "c14", [])) or c.get("probe.des-wrap-crossed") or c.get("probe.aes-wrap-crossed")

    def sample_view(self, plan):
        from ..engine import _compact

        p = dict(plan)
        p["scripts"] = dict(list(plan.get("scripts", {}).items())[:4])
        return _compact(p)


PROP = C14()
