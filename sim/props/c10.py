"""C10 - unauthenticated or forged v3 replies are never accepted."""

from __future__ import annotations

from .. import gen, oracle, snmp
from ..oracle import MATCH, SKIP, UNKNOWN, V
from .base import Prop, v3_setup
from .c04 import _compare, _short

MARK = b"FORGED".hex()
AUTH_LEVELS = ["md5", "sha", "md5-des", "md5-aes", "sha-des", "sha-aes"]


def forgery(rng, oid, has_priv, delay):
    """An otherwise-matching reply (right user, engine id, msgID, request-id) that
    fails authentication or the security level."""
    it = {"k": "custom", "pdu": "response", "varbinds": [[oid, ["octets", MARK]]], "delay_ns": delay}
    kind = rng.choice(["zero", "random", "flip", "absent", "short", "noauth", "flag-cleared", "cleartext", "cleartext-flagged", "noauth-report-control", "valid-control", "bad-mac-cleartext", "noauth-any-flags", "noauth-any-flags", "xor-words"])
    if kind in ("zero", "absent"):
        it["rewrite"] = {"mac": kind}
    elif kind == "random":
        it["rewrite"] = {"mac": {"mac": "random", "mac_hex": bytes(rng.randrange(256) for _ in range(12)).hex()}}
    elif kind == "flip":
        it["rewrite"] = {"mac": {"mac": "flip", "flip_bit": rng.randrange(96)}}
    elif kind == "short":
        it["rewrite"] = {"mac": {"mac": "short", "mac_len": rng.choice([1, 4, 10, 11])}}
    elif kind == "xor-words":
        m = rng.choice([1, 0x80000000, 0xFFFFFFFF, rng.randrange(1, 2**32)])
        it["rewrite"] = {"mac": {"mac": "xor-words", "xor_mask": "%08x" % m, "xor_at": rng.choice([[0, 1], [1, 2], [0, 2]])}}
    elif kind == "noauth":
        it["rewrite"] = {"noauth": 1}
    elif kind == "flag-cleared":
        it["flag_clear"] = 1  # resolved at generation: flags value depends on the level
    elif kind == "cleartext":
        it["rewrite"] = {"cleartext": 1} if has_priv else {"mac": "zero"}
    elif kind == "cleartext-flagged":
        it["rewrite"] = {"cleartext": 1, "flags": 3} if has_priv else {"noauth": 1}
    elif kind == "bad-mac-cleartext":
        it["rewrite"] = {"cleartext": 1, "mac": "zero"} if has_priv else {"mac": "zero"}
    elif kind == "noauth-any-flags":
        # no MAC, cleartext body, but the flag octet claims whatever it likes (never the auth bit)
        it["rewrite"] = {"noauth": 1, "flags": rng.choice([0, 2, 4, 6])}
    elif kind == "noauth-report-control":
        it["pdu"] = "report"
        it["varbinds"] = [["1.3.6.1.6.3.15.1.1.5.0", ["counter32", rng.randrange(2**32)]]]
        it["rewrite"] = {"noauth": 1}
    it["kind"] = kind
    return it


class C10(Prop):
    id = "C10"
    rule = (
        "plans: a v3 session holding an authentication key {MD5, SHA} x {none, DES, AES} x {engine id given, discovered} x {sync, async}; each "
        "request is answered by 0-3 forgeries - otherwise matching (user, engine id, msgID, request-id) replies with MAC {zero, random, one bit "
        "flipped, absent, truncated}, auth flag cleared (with or without a valid MAC), sent in clear although privacy is configured - carrying a "
        "marker value, optionally followed by the genuine reply; controls: correctly signed scripted replies and unauthenticated Reports must be "
        "delivered. oracle: acceptance model + 'the marker never reaches the caller'. non-trivial = a forgery was consumed while a request was "
        "pending; distinct = abstract trace + multiset of forgery kinds"
    )
    quick_runs = 20000
    thorough_runs = 300000

    def families(self, tier):
        return [("forgeries", 1)]

    def expected_counters(self, tier):
        return ["fault.rewrite.mac", "fault.rewrite.noauth", "fault.rewrite.cleartext", "fault.rewrite.flags", "probe.forgery-consumed", "probe.forgery-then-genuine-delivered", "probe.control-delivered", "probe.report-delivered", "probe.stamp-after-forgery-checked"]

    def gen(self, rng, family, tier):
        level = rng.choice(AUTH_LEVELS)
        a, sess = v3_setup(rng, level, discover=rng.random() < 0.3, ktypes=["localized", "master"])
        a["mib"] = gen.mib(rng, n=4)
        a["stamp"] = True
        a["time_window"] = True
        a["discovery_time"] = "real"
        sess["timeout_ns"] = 500_000_000
        has_priv = "-" in level
        base_flags = 3 if has_priv else 1
        ops = [{"id": 1, "s": 0, "op": "refresh"}]
        scripts = {}
        if rng.random() < 0.25:
            # the first refresh fails half-way and is retried
            scripts["1:%d" % rng.choice([1, 2])] = {"replies": [{"k": "none"}]}
            ops.append({"id": 100, "s": 0, "op": "refresh"})
        oids = [r[0] for r in a["mib"]]
        for opid in range(2, rng.randint(3, 6)):
            oid = rng.choice(oids)
            ops.append({"id": opid, "s": 0, "op": "get", "oid": oid})
            items = []
            t = 1_000_001
            for _ in range(rng.choice([1, 1, 2, 3])):
                it = forgery(rng, oid, has_priv, t)
                if it.pop("flag_clear", None):
                    it["rewrite"] = {"flags": base_flags & ~1}
                if it["kind"] != "valid-control" and rng.random() < 0.4:
                    # forged boots/time must not be adopted
                    it.setdefault("rewrite", {})["time"] = rng.choice([5, 99999, 2**31 - 1])
                if rng.random() < 0.2:
                    # the same forgery with long-form lengths around the security parameters
                    it.setdefault("rewrite", {})["widths"] = gen.widths(rng, True)
                items.append(it)
                t += 1_000_000
            if rng.random() < 0.7:
                items.append({"k": "genuine", "delay_ns": t})
                if rng.random() < 0.2:
                    items[-1]["rewrite"] = {"widths": gen.widths(rng, True)}
            scripts["%d:1" % opid] = {"replies": items}
        return {"flavour": rng.choice(["sync", "async"]), "agent": a, "sessions": [sess], "ops": ops, "scripts": scripts, "latency_ns": 1_000_001}

    def check(self, run):
        from . import v3common

        out = []
        kinds = []
        # the marker never reaches the caller unless carried by a correctly secured datagram
        for res in run.results:
            if res["op"]["op"] != "get":
                continue
            exs = run.exchanges(res)
            if len(exs) != 1:
                continue
            ex = exs[0]
            kind, label, verdicts = oracle.exchange_verdict(run, 0, ex)
            consumed = [run.dgrams[d]["label"] for d in ex["rx"]]
            forged = [l for l in consumed if l.get("custom") and l.get("pdu") == "response" and not (l.get("mac") == "valid" and l.get("flags", 0) & 1)]
            if forged:
                run.sim.count("probe.forgery-consumed")
            kinds += [l.get("mac", "?") + "/%d" % l.get("flags", 0) + ("c" if not l.get("encrypted") else "e") for l in consumed if l.get("custom")]
            if "ok" in res and res["ok"] == ["bytes", MARK]:
                # delivered a scripted value: it must come from a properly secured datagram
                last = consumed[-1] if consumed else {}
                req_flags = run.wire_dec[(0, ex["serial"])]["m"]["flags"]
                secure = last.get("mac") == "valid" and last.get("flags", 0) & 1 and (not (req_flags & 2) or last.get("encrypted"))
                if not secure:
                    out.append(V("C10.forgery-delivered", "get() returned the value of a reply with mac=%s flags=%s encrypted=%s (request flags %d)" % (last.get("mac"), last.get("flags"), last.get("encrypted"), req_flags), mac=str(last.get("mac")), flags=last.get("flags"), encrypted=bool(last.get("encrypted"))))
                    continue
                run.sim.count("probe.control-delivered")
            if kind == UNKNOWN:
                continue
            decisive = next((i for i, v in enumerate(verdicts) if v[0] != SKIP), None)
            if decisive is not None and decisive < len(ex["rx"]) - 1:
                out.append(V("C10.genuine-skipped", "a %s datagram (mac=%s flags=%s) was not accepted" % (kind, verdicts[decisive][1].get("mac"), verdicts[decisive][1].get("flags"))))
                continue
            if kind == MATCH:
                if label.get("pdu") == "report":
                    run.sim.count("probe.report-delivered")
                elif forged:
                    run.sim.count("probe.forgery-then-genuine-delivered")
                for v in _compare(res, oracle.expect_get(label), "accepted reply"):
                    v.oracle = v.oracle.replace("C04.", "C10.")
                    out.append(v)
            elif kind == "TIMEOUT":
                if "ok" in res:
                    out.append(V("C10.forgery-delivered", "only forged / non-matching datagrams arrived but get() returned %r" % (res["ok"],), mac="?", flags=None, encrypted=None))
                elif not oracle.exc_is(res["exc"], "TimeoutError"):
                    out.append(V("C10.forgery-ended-wait", "a forged datagram ended the call with %s" % _short(res)))
        # a skipped forgery must not change the boots/time stamped on later requests
        for s, res, n, ex, dec, raw, exp, deferred, tr in v3common.iter_v3_tx(run):
            if exp is None or not dec.get("m"):
                continue
            u = dec["m"]["usm"]
            run.sim.count("probe.stamp-after-forgery-checked")
            if (u["boots"], u["time"]) != (exp["boots"], exp["time"]):
                out.append(V("C10.forged-time-adopted", "request stamped boots=%d time=%d; the most recent accepted message carried boots=%d time=%d" % (u["boots"], u["time"], exp["boots"], exp["time"])))
        run.c10_kinds = sorted(kinds)
        return out

    def abstract(self, run):
        from ..engine import abstract_trace

        return abstract_trace(run) + "|" + ",".join(getattr(run, "c10_kinds", []))

    def nontrivial(self, run):
        return run.sim.counters.get("probe.forgery-consumed", 0) > 0


PROP = C10()
