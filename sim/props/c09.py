"""C09 - every outgoing authenticated message carries a correct HMAC-96."""

from __future__ import annotations

from .. import gen
from ..oracle import V
from . import v3common
from .base import Prop


class C09(Prop):
    id = "C09"
    rule = (
        "plans: 1-3 v3 sessions {noAuth, MD5, SHA} x {none, DES, AES} x key types {password, master, localized} x {engine id given, discovered}; "
        "histories of refresh/get/get_many(1..25 OIDs, so long-form lengths move the field)/walks with timeouts, decode errors, stale msgIDs, "
        "idle gaps and agent restarts (boots/time widths change). every emitted datagram: HMAC recomputed with hashlib under the key derived "
        "independently from the configured secret and the engine id in the message. non-trivial = at least 2 signed datagrams with different "
        "auth-field offsets or lengths; distinct = abstract trace + set of (offset, length) pairs"
    )
    quick_runs = 10000
    thorough_runs = 150000

    def families(self, tier):
        return [("history", 4), ("two-engines", 1)]

    def expected_counters(self, tier):
        return ["probe.mac-checked", "probe.mac-md5", "probe.mac-sha", "probe.mac-with-priv", "probe.mac-long-form-message", "probe.unsigned-checked", "probe.mac-after-discovery", "probe.mac-after-boots-change"]

    def gen(self, rng, family, tier):
        if family == "two-engines":
            return v3common.two_engine_plan(rng, tier, [l for l in gen.SEC_LEVELS if l != "noauth"])
        return v3common.history_plan(rng, tier, gen.SEC_LEVELS)

    def check(self, run):
        out = []
        self.offsets = set()
        last_boots = {}
        for s, res, n, ex, dec, raw, exp, deferred, tr in v3common.iter_v3_tx(run):
            if not dec.get("m"):
                out.append(V("C09.not-decodable", "v3 datagram not strictly decodable: %s" % dec.get("error")))
                continue
            cfg = run.sess_cfg[s]
            v = v3common.check_mac(cfg, dec, raw, deferred)
            u = dec["m"]["usm"]
            if u["auth"]:
                run.sim.count("probe.mac-checked")
                run.sim.count("probe.mac-md5" if cfg["user"]["auth"]["alg"] == 1 else "probe.mac-sha")
                if dec["m"]["flags"] & 2:
                    run.sim.count("probe.mac-with-priv")
                if len(raw) > 255:
                    run.sim.count("probe.mac-long-form-message")
                if not cfg.get("engine_id"):
                    run.sim.count("probe.mac-after-discovery")
                if s in last_boots and last_boots[s] != u["boots"]:
                    run.sim.count("probe.mac-after-boots-change")
                last_boots[s] = u["boots"]
                self.offsets.add((u["auth_off"], len(raw)))
            else:
                run.sim.count("probe.unsigned-checked")
            if v is not None:
                out.append(v)
        run.c09_offsets = set(self.offsets)
        return out

    def abstract(self, run):
        from ..engine import abstract_trace

        return abstract_trace(run) + "|" + ",".join("%d/%d" % x for x in sorted(getattr(run, "c09_offsets", ())))

    def nontrivial(self, run):
        return len(getattr(run, "c09_offsets", ())) >= 2


PROP = C09()
