"""C03 - requests on the wire are exactly what the caller asked for."""

from __future__ import annotations

from .. import ber, gen, oracle, snmp
from ..oracle import V
from .base import Prop, V3Tracker, multi_setup


def oid_list_that_fits(rng, rows):
    pool = [r[0] for r in rows] + [gen.oid_text(gen.oid(rng, small=0.3)) for _ in range(4)]
    n = rng.choice([1, 1, 2, 3, 5, 10, 30])
    return [rng.choice(pool) for _ in range(n)]


class C03(Prop):
    id = "C03"
    rule = (
        "plans: 1-8 sessions of mixed versions/security configs (sync: round-robin, async: concurrent tasks) sharing the process-wide buffer "
        "pool (also: one real caller thread per sync session, parked and released one at a time by a seeded scheduler, so that several pooled buffers are outstanding at once), each issuing get/get_many/getnext/getbulk/fetch/refresh; histories include timeouts, decode errors, oversize failures and replies "
        "of every size. every emitted datagram is strictly decoded by the reference and compared with the API call and the session's "
        "credentials (v3 state tracked from accepted messages). non-trivial = >= 2 requests were emitted and at least one earlier call on the "
        "pool ended abnormally or received a reply; distinct = distinct abstract trace"
    )
    quick_runs = 12000
    thorough_runs = 150000

    def families(self, tier):
        return [("mixed-sync", 3), ("mixed-async", 2), ("single", 2), ("mixed-threads", 2)]

    def expected_counters(self, tier):
        return ["probe.tx-checked", "probe.long-form-length-emitted", "probe.after-timeout", "probe.after-decode-error", "probe.after-encode-error", "probe.getbulk-checked", "probe.v3-checked", "probe.v3-encrypted-checked", "probe.three-threads-parked-holding-buffers", "sched.thread-yield"]

    def gen(self, rng, family, tier):
        flavour = "async" if family == "mixed-async" else ("threads" if family == "mixed-threads" else "sync")
        if family == "single":
            versions = [rng.choice(["v1", "v2c", "v3"])]
            flavour = rng.choice(["sync", "async"])
        else:
            versions = [rng.choice(["v1", "v2c", "v3", "v3"]) for _ in range(rng.randint(3 if family == "mixed-threads" else 2, 8 if tier == "thorough" else 5))]
        agent, sessions = multi_setup(rng, versions, ktypes=["localized", "master", "password"] if rng.random() < 0.3 else ["localized", "master"])
        rows = agent["mib"]
        ops = []
        scripts = {}
        opid = 0
        per_session = rng.randint(1, 4 if tier == "quick" else 8)
        plan_ops = []
        for s, cfg in enumerate(sessions):
            mine = []
            if cfg["version"] == "v3":
                opid += 1
                mine.append({"id": opid, "s": s, "op": "refresh"})
            for _ in range(per_session):
                opid += 1
                k = rng.choice(["get", "get", "get_many", "get_many", "getnext", "getbulk", "fetch", "refresh", "big"])
                if k == "get":
                    op = {"id": opid, "s": s, "op": "get", "oid": rng.choice(oid_list_that_fits(rng, rows))}
                elif k == "get_many":
                    op = {"id": opid, "s": s, "op": "get_many", "oids": oid_list_that_fits(rng, rows)}
                    if rng.random() < 0.3:
                        op["as"] = rng.choice(["tuple", "gen"])
                elif k == "big":
                    # around or beyond the buffer: many long OIDs
                    n = rng.choice([100, 200, 300, 400])
                    op = {"id": opid, "s": s, "op": "get_many", "oids": [gen.oid_text(gen.oid(rng, min_extra=4, max_extra=10, small=0.2)) for _ in range(n)]}
                elif k == "refresh":
                    op = {"id": opid, "s": s, "op": "refresh"}
                else:
                    if k == "getbulk" and cfg["version"] == "v1":
                        k = "getnext"
                    op = {"id": opid, "s": s, "op": "walk", "method": k, "oid": rng.choice(["1.3.6.1", "1.3.6", "1.3"] + [r[0] for r in rows[:3]]), "limit": rng.choice([1, 3, 8])}
                    if k == "getbulk" and rng.random() < 0.7:
                        op["max_rep"] = rng.choice([1, 2, 3, 10, 127, 128, 255, 256, 65535, 2**31 - 1, 2**31 - 1, 2**31, 2**32 - 1, 2**32 + 5, 2**40, 2**62])
                mine.append(op)
                if op["op"] == "walk" and rng.random() < 0.12:
                    # the agent answers with a name whose sub-identifiers are written non-minimally (leading
                    # 0x80) or left unterminated: whatever the walk makes of it, what it sends next is well-formed
                    base_arcs = ber.parse_oid_text(op["oid"])
                    nm = base_arcs + (rng.choice([1, 5, 200]), rng.choice([0, 3]))
                    head = ber.oid_content(base_arcs)
                    tail = rng.choice([b"\x80" + ber.arc_bytes(nm[-2]) + ber.arc_bytes(nm[-1]), ber.arc_bytes(nm[-2]) + b"\x80\x80" + ber.arc_bytes(nm[-1]), ber.arc_bytes(nm[-2]) + ber.arc_bytes(nm[-1]) + b"\x85"])
                    scripts["%d:1" % opid] = {"replies": [{"k": "custom", "pdu": "response", "unpredictable": True, "varbinds": [[gen.oid_text(nm), ["int", 1], {"name_hex": (head + tail).hex()}]] * (2 if k == "getbulk" else 1)}]}
                    continue
                # history-making faults on the first request of the op
                r = rng.random()
                key = "%d:1" % opid
                if r < 0.12:
                    scripts[key] = {"replies": [{"k": "none"}]}
                elif r < 0.22:
                    scripts[key] = {"replies": [{"k": "genuine", "outer": [{"op": "truncate", "n": rng.randrange(1, 200)}]}]}
                elif r < 0.3:
                    scripts[key] = {"replies": [{"k": "genuine", "outer": [{"op": "oversize", "val": rng.randrange(256), "extra": rng.choice([1, 50])}]}]}
                elif r < 0.4:
                    rw = {"request-id": "xor1"}
                    if cfg["version"] == "v3":
                        rw = {rng.choice(["request-id", "msg-id"]): "xor1", "time": rng.choice([0, 5, 77777, 2**31 - 1]), "boots": rng.choice([0, 3, 2**31 - 1])}
                    scripts[key] = {"replies": [{"k": "genuine", "rewrite": rw}] + ([{"k": "genuine", "delay_ns": 3_000_001}] if rng.random() < 0.6 else [])}
            plan_ops.append(mine)
        # interleave (keeps per-session order)
        while any(plan_ops):
            cand = [i for i, m in enumerate(plan_ops) if m]
            i = rng.choice(cand)
            ops.append(plan_ops[i].pop(0))
        for cfg in sessions:
            cfg["timeout_ns"] = rng.choice([200_000_000, 500_000_000])
        agent["time_window"] = rng.random() < 0.7
        return {"flavour": flavour, "agent": agent, "sessions": sessions, "ops": ops, "scripts": scripts, "latency_ns": gen.latency(rng, 1000, 2_000_000), "ready_order_seed": rng.randrange(2**31), "poison": rng.randrange(256), "rx_tail": rng.choice(["poison", "keep"]), "sched_seed": rng.randrange(2**31), "yield_p": rng.choice([0.1, 0.3, 0.6]), "share_objects": rng.random() < 0.3, "send_errors": ({"%d:1" % rng.randint(1, max(1, opid)): rng.choice([1, 105, 101, 111]) for _ in range(rng.randint(1, 2))} if rng.random() < 0.2 else {})}

    def check(self, run):
        out = []
        trackers = {}
        abnormal_before = False
        for res in sorted(run.results, key=lambda r: (r["t0"], r["i"])):
            s = res["s"]
            cfg = run.sess_cfg[s]
            ver = {"v1": 0, "v2c": 1, "v3": 3}[cfg["version"]]
            op = res["op"]
            exs = run.exchanges(res)
            tr = trackers.get(s)
            if ver == 3 and tr is None:
                tr = trackers[s] = V3Tracker(run, s)
            yielded = []
            if op["op"] == "walk" and isinstance(res.get("ok"), dict):
                yielded = [ber.parse_oid_text(k) for k, _ in res["ok"]["items"]]
            prev_follow = None
            from .v3common import preliminary_count

            pre = preliminary_count(run, s, res, tr.deferred) if ver == 3 and tr is not None else 0
            if pre:
                run.sim.count("probe.discovery-inside-operation")
            for n0, ex in enumerate(exs):
                n = n0 - pre  # negative: the session's own discovery / time sync before the operation's request
                run.sim.count("probe.tx-checked")
                if abnormal_before:
                    pass
                dec = run.wire_dec[(s, ex["serial"])]
                raw = bytes.fromhex(ex["hex"])
                if not dec["ok"]:
                    out.append(V("C03.not-strictly-decodable", "%s request is not a well-formed minimal message: %s (%s)" % (op["op"], dec.get("error"), ex["hex"][:120]), op=op["op"]))
                    continue
                if _has_long_form(raw):
                    run.sim.count("probe.long-form-length-emitted")
                if dec["version"] != ver:
                    out.append(V("C03.wrong-version", "version %d on the wire, session is %s" % (dec["version"], cfg["version"]), op=op["op"]))
                    continue
                pdu = dec["pdu"]
                if ver != 3:
                    if dec["m"]["community"] != cfg.get("community", "public").encode():
                        out.append(V("C03.wrong-community", "community %r" % dec["m"]["community"], op=op["op"]))
                else:
                    run.sim.count("probe.v3-checked")
                    if "plain" in dec:
                        run.sim.count("probe.v3-encrypted-checked")
                    if tr.known:
                        exp = tr.expected()
                        u = dec["m"]["usm"]
                        got = {"user": u["user"], "engine_id": u["engine_id"], "boots": u["boots"], "time": u["time"], "flags": dec["m"]["flags"] & 3}
                        for f in ("user", "engine_id", "boots", "time", "flags"):
                            if got[f] != exp[f]:
                                out.append(V("C03.wrong-v3-" + f, "%s on the wire is %r, session state says %r (op %s)" % (f, got[f], exp[f], op["op"]), field=f))
                        if dec["m"]["sec_model"] != 3:
                            out.append(V("C03.wrong-security-model", "securityModel %d" % dec["m"]["sec_model"]))
                        tr.observe(run, s, res, n0, ex)
                rid = pdu["request_id"]
                if not (0 <= rid < 2**31):
                    out.append(V("C03.request-id-range", "request-id %d" % rid, op=op["op"]))
                if ver == 3 and not (0 <= dec["msg_id"] < 2**31):
                    out.append(V("C03.msg-id-range", "msgID %d" % dec["msg_id"], op=op["op"]))
                # PDU type and OIDs
                want_type, want_oids = None, None
                if n < 0:
                    want_type, want_oids = "get", []
                elif op["op"] == "get":
                    want_type, want_oids = "get", [ber.parse_oid_text(op["oid"])]
                elif op["op"] == "get_many":
                    want_type, want_oids = "get", [ber.parse_oid_text(o) for o in op["oids"]]
                elif op["op"] == "refresh":
                    want_type, want_oids = "get", []
                elif op["op"] == "walk":
                    m = op["method"]
                    bulk = m == "getbulk" or (m == "fetch" and ver != 0 and cfg.get("allow_bulk", True))
                    want_type = "getbulk" if bulk else "getnext"
                    if n == 0:
                        want_oids = [ber.parse_oid_text(op["oid"])]
                    if bulk:
                        run.sim.count("probe.getbulk-checked")
                        mr = op.get("max_rep") if m == "getbulk" and op.get("max_rep") else cfg.get("max_repetitions", 20)
                        if pdu["type"] == "getbulk" and (pdu["non_repeaters"] != 0 or pdu["max_repetitions"] != mr):
                            out.append(V("C03.wrong-bulk-parameters", "non-repeaters %d max-repetitions %d, asked for 0 / %d" % (pdu["non_repeaters"], pdu["max_repetitions"], mr)))
                if pdu["type"] != want_type:
                    out.append(V("C03.wrong-pdu-type", "%s sent as %s, expected %s" % (op["op"] + ":" + op.get("method", ""), pdu["type"], want_type), op=op["op"]))
                if want_oids is not None and list(pdu["varbinds"]) != want_oids:
                    out.append(V("C03.wrong-oids", "asked %s, wire has %s" % ([ber.oid_text(o) for o in want_oids][:5], [ber.oid_text(o) for o in pdu["varbinds"]][:5]), op=op["op"]))
                if op["op"] == "walk" and n > 0:
                    o = pdu["varbinds"][0] if len(pdu["varbinds"]) == 1 else None
                    if o is None or (o not in yielded) or (prev_follow is not None and not o > prev_follow):
                        out.append(V("C03.walk-followup-oid", "follow-up request %d asks for %s which is not a later yielded OID" % (n, pdu["varbinds"]), op=op["op"]))
                    prev_follow = o
            # history probes
            exc = res.get("exc") or (res["ok"].get("end") if isinstance(res.get("ok"), dict) and isinstance(res["ok"].get("end"), dict) else None)
            if abnormal_before == "timeout":
                run.sim.count("probe.after-timeout")
            elif abnormal_before == "decode":
                run.sim.count("probe.after-decode-error")
            elif abnormal_before == "encode":
                run.sim.count("probe.after-encode-error")
            if exc is not None:
                if "TimeoutError" in exc["mro"]:
                    abnormal_before = "timeout"
                elif "PySnmpDecodeError" in exc["mro"]:
                    abnormal_before = "decode"
                elif "PySnmpEncodeError" in exc["mro"]:
                    abnormal_before = "encode"
                if not exc["documented"]:
                    out.append(V("C03.undocumented-exception", "%s raised %s: %s" % (op["op"], exc["exc"], exc["msg"][:100]), exc=exc["exc"]))
        return out

    def nontrivial(self, run):
        return sum(len(v) for v in run.wire.values()) >= 2


def _has_long_form(raw):
    return len(raw) > 130


PROP = C03()
