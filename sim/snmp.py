"""Reference SNMP v1/v2c/v3 message model (RFC 1157, 3416, 3412, 3414).

Encoding side builds `ber.Node` trees (so faults can be applied structurally);
decoding side is strict and is applied to every datagram the client emits.
"""

from __future__ import annotations

import math

from . import ber
from .ber import Node, StrictError, prim, seq

PDU_GET = 0xA0
PDU_GETNEXT = 0xA1
PDU_RESPONSE = 0xA2
PDU_GETBULK = 0xA5
PDU_REPORT = 0xA8
PDU_NAMES = {PDU_GET: "get", PDU_GETNEXT: "getnext", PDU_RESPONSE: "response", PDU_GETBULK: "getbulk", PDU_REPORT: "report"}

V1, V2C, V3 = 0, 1, 3

VALUE_TAGS = {
    "bool": 0x01,
    "int": 0x02,
    "octets": 0x04,
    "null": 0x05,
    "oid": 0x06,
    "objdesc": 0x07,
    "real": 0x09,
    "ipaddr": 0x40,
    "counter32": 0x41,
    "gauge32": 0x42,
    "timeticks": 0x43,
    "opaque": 0x44,
    "counter64": 0x46,
    "uinteger32": 0x47,
    "nosuchobject": 0x80,
    "nosuchinstance": 0x81,
    "endofmibview": 0x82,
}
EXCEPTION_KINDS = ("nosuchobject", "nosuchinstance", "endofmibview")
UNSIGNED_KINDS = ("counter32", "gauge32", "timeticks", "counter64", "uinteger32")


# ---------------------------------------------------------------- values
def value_node(val) -> Node:
    """val = [kind, payload?, opts?]; see VALUE_TAGS. opts: lz (leading zero), w (length width)."""
    kind = val[0]
    payload = val[1] if len(val) > 1 else None
    opts = val[2] if len(val) > 2 else {}
    w = opts.get("w", 0)
    if kind == "rawtlv":
        n = Node(0, content=b"")
        n.raw = bytes.fromhex(payload)
        return n
    tag = VALUE_TAGS[kind]
    if kind == "int":
        c = ber.int_content(payload)
    elif kind in UNSIGNED_KINDS:
        c = ber.uint_content(payload, opts.get("lz", True))
    elif kind in ("octets", "opaque", "objdesc", "real"):
        c = bytes.fromhex(payload)
    elif kind == "oid":
        c = ber.oid_content(ber.parse_oid_text(payload))
    elif kind == "ipaddr":
        c = bytes(int(x) for x in payload.split("."))
    elif kind == "bool":
        # BER (X.690 8.2.2): any non-zero octet is TRUE; opts tv = the octet to use for TRUE
        c = bytes([opts.get("tv", 0xFF)]) if payload else b"\x00"
    elif kind in ("null",) + EXCEPTION_KINDS:
        c = b""
    else:
        raise ValueError(kind)
    return prim(tag, c, w, name="value")


def real_denotation(c: bytes) -> float:
    """X.690 8.5 REAL contents -> float (reference, independent of the client)."""
    if len(c) == 0:
        return 0.0
    f = c[0]
    if f & 0x80:
        sign = -1.0 if f & 0x40 else 1.0
        base = {0x00: 2, 0x10: 8, 0x20: 16}[f & 0x30]
        scale = (f >> 2) & 3
        el = f & 3
        if el == 3:
            n = c[1]
            eb = c[2 : 2 + n]
            rest = c[2 + n :]
        else:
            eb = c[1 : 2 + el]
            rest = c[2 + el :]
        e = int.from_bytes(eb, "big", signed=True)
        m = int.from_bytes(rest, "big")
        # base is a power of two: scale exactly with ldexp (no overflow error, correct rounding to inf / 0)
        shift = e * {2: 1, 8: 3, 16: 4}[base] + scale
        try:
            return sign * math.ldexp(float(m), shift)
        except OverflowError:
            return sign * math.inf
    if f & 0xC0 == 0x40:
        return {0x40: math.inf, 0x41: -math.inf, 0x42: math.nan, 0x43: -0.0}[f]
    # ISO 6093: leading spaces allowed, the decimal mark is a full stop or a comma
    return float(c[1:].decode("ascii").lstrip(" ").replace(",", "."))


def denote(val):
    """The Python value the caller must see for a model value (App. B of DESIGN)."""
    kind = val[0]
    payload = val[1] if len(val) > 1 else None
    if kind == "int" or kind in UNSIGNED_KINDS:
        return payload
    if kind in ("octets", "opaque", "objdesc"):
        return bytes.fromhex(payload)
    if kind in ("oid", "ipaddr"):
        return payload
    if kind == "bool":
        return bool(payload)
    if kind == "real":
        return real_denotation(bytes.fromhex(payload))
    if kind == "null":
        return None
    raise ValueError("no denotation for %s" % kind)


def is_data(val) -> bool:
    return val[0] not in EXCEPTION_KINDS and val[0] != "null"


def same_value(a, b) -> bool:
    """Equality of delivered Python values: type-exact, NaN by isnan, -0.0 by sign."""
    if isinstance(a, float) or isinstance(b, float):
        if not (isinstance(a, float) and isinstance(b, float)):
            return False
        if math.isnan(a) or math.isnan(b):
            return math.isnan(a) and math.isnan(b)
        return a == b and math.copysign(1, a) == math.copysign(1, b)
    return type(a) is type(b) and a == b


# ---------------------------------------------------------------- encode
def varbind_node(oid_arcs, val, opts=None) -> Node:
    """opts: ow/w (length widths), name_tag / name_hex (replace the name's tag or
    contents, e.g. RELATIVE-OID names), extra_hex (junk after the value, inside the
    varbind), only_name (no value at all), empty (a varbind with no content)."""
    opts = opts or {}
    if opts.get("empty"):
        return seq([], opts.get("w", 0), name="varbind")
    content = bytes.fromhex(opts["name_hex"]) if "name_hex" in opts else ber.oid_content(oid_arcs)
    name = prim(opts.get("name_tag", 0x06), content, opts.get("ow", 0), name="name")
    kids = [name]
    if not opts.get("only_name"):
        kids.append(value_node(val))
    if opts.get("extra_hex"):
        x = Node(0, content=b"")
        x.raw = bytes.fromhex(opts["extra_hex"])
        kids.append(x)
    return seq(kids, opts.get("w", 0), name="varbind")


def node_offsets(tree: Node):
    """[(start, content_start, end)] for every node of the tree in walk order,
    as offsets into tree.encode()."""
    out = []

    def rec(n, start):
        enc = n.encode()
        if n.raw is not None:
            out.append((start, start, start + len(enc)))
            return len(enc)
        body = n.body()
        hdr = len(enc) - len(body)
        out.append((start, start + hdr, start + len(enc)))
        if n.children is not None:
            p = start + hdr
            for c in n.children:
                p += rec(c, p)
        return len(enc)

    rec(tree, 0)
    return out


def pdu_node(tag, request_id, error_status, error_index, varbinds, opts=None) -> Node:
    opts = opts or {}
    vbs = []
    for item in varbinds:
        if isinstance(item, Node):
            vbs.append(item)
        else:
            vbs.append(varbind_node(item[0], item[1], item[2] if len(item) > 2 else None))
    return Node(
        tag,
        children=[
            prim(0x02, ber.int_content(request_id), name="request-id"),
            prim(0x02, ber.int_content(error_status), name="error-status"),
            prim(0x02, ber.int_content(error_index), name="error-index"),
            seq(vbs, opts.get("vw", 0), name="varbinds"),
        ],
        width=opts.get("w", 0),
        name="pdu",
    )


def community_msg(version, community: bytes, pdu: Node, opts=None) -> Node:
    opts = opts or {}
    return seq([prim(0x02, ber.int_content(version), name="version"), prim(0x04, community, name="community"), pdu], opts.get("w", 0), name="message")


def scoped_pdu_node(ctx_engine_id: bytes, ctx_name: bytes, pdu: Node, opts=None) -> Node:
    opts = opts or {}
    return seq([prim(0x04, ctx_engine_id, name="ctx-engine-id"), prim(0x04, ctx_name, name="ctx-name"), pdu], opts.get("w", 0), name="scoped-pdu")


def v3_msg(msg_id, max_size, flags, usm, data: Node, sec_model=3, opts=None) -> Node:
    """usm = dict(engine_id, boots, time, user, auth, priv) (bytes/ints)."""
    opts = opts or {}
    usm_seq = seq(
        [
            prim(0x04, usm["engine_id"], name="usm-engine-id"),
            prim(0x02, ber.int_content(usm["boots"]), name="usm-boots"),
            prim(0x02, ber.int_content(usm["time"]), name="usm-time"),
            prim(0x04, usm["user"], name="usm-user"),
            prim(0x04, usm["auth"], name="usm-auth"),
            prim(0x04, usm["priv"], name="usm-priv"),
        ],
        name="usm",
    )
    return seq(
        [
            prim(0x02, ber.int_content(3), name="version"),
            seq(
                [
                    prim(0x02, ber.int_content(msg_id), name="msg-id"),
                    prim(0x02, ber.int_content(max_size), name="max-size"),
                    prim(0x04, bytes([flags]), name="flags"),
                    prim(0x02, ber.int_content(sec_model), name="sec-model"),
                ],
                name="global",
            ),
            Node(0x04, children=[usm_seq], name="sec-params"),
            data,
        ],
        opts.get("w", 0),
        name="message",
    )


def find(node: Node, name: str):
    for path, n in node.walk():
        if n.name == name:
            return n
    return None


# ---------------------------------------------------------------- strict decode
def _dec_varbinds(r: ber.Reader, request: bool):
    out = []
    vbs = r.sub(0x30)
    while not vbs.eof():
        vb = vbs.sub(0x30)
        oid = vb.oid()
        if request:
            vb.null()
            out.append(oid)
        else:
            tag, c = vb.tlv()
            out.append((oid, tag, c))
        vb.done("varbind")
    return out


def dec_pdu(data: bytes, off: int, end: int, request=True):
    r = ber.Reader(data, off, end)
    tag = r.peek_tag()
    if tag not in PDU_NAMES:
        raise StrictError("unknown PDU tag %#x" % tag)
    p = r.sub(tag)
    r.done("pdu envelope")
    pdu = {"type": PDU_NAMES[tag], "request_id": p.int()}
    a = p.int()
    b = p.int()
    if tag == PDU_GETBULK:
        pdu["non_repeaters"], pdu["max_repetitions"] = a, b
    else:
        pdu["error_status"], pdu["error_index"] = a, b
    pdu["varbinds"] = _dec_varbinds(p, request)
    p.done("pdu")
    return pdu


def decode_message(data: bytes, request=True):
    """Strictly decode a whole datagram. Returns a dict; raises StrictError.

    For v3 with encrypted msgData the scoped PDU is left as 'encrypted': bytes.
    """
    top = ber.Reader(data)
    m = top.sub(0x30)
    top.done("datagram")
    version = m.int()
    out = {"version": version}
    if version in (V1, V2C):
        out["community"] = m.octets()
        out["pdu"] = dec_pdu(data, m.off, m.end, request)
        return out
    if version != V3:
        raise StrictError("version %d" % version)
    g = m.sub(0x30)
    out["msg_id"] = g.int()
    out["max_size"] = g.int()
    flags = g.octets()
    if len(flags) != 1:
        raise StrictError("msgFlags length")
    out["flags"] = flags[0]
    out["sec_model"] = g.int()
    g.done("global header")
    tag, cs, ce = ber.dec_tlv(data, m.off, m.end, 0x04)
    m.off = ce
    sp = ber.Reader(data, cs, ce)
    u = sp.sub(0x30)
    sp.done("security parameters")
    usm = {"engine_id": u.octets(), "boots": u.int(), "time": u.int(), "user": u.octets()}
    # offset of the auth parameter contents inside the datagram, for MAC checks
    atag, acs, ace = ber.dec_tlv(data, u.off, u.end, 0x04)
    u.off = ace
    usm["auth"] = data[acs:ace]
    usm["auth_off"] = acs
    usm["priv"] = u.octets()
    u.done("usm")
    out["usm"] = usm
    if m.peek_tag() == 0x04:
        out["encrypted"] = m.octets()
        m.done("message")
    else:
        out["scoped"] = dec_scoped(data, m.off, m.end, request)
    return out


def dec_scoped(data: bytes, off: int, end: int, request=True, allow_padding=False):
    r = ber.Reader(data, off, end)
    tag, cs, ce = ber.dec_tlv(data, off, end, 0x30)
    if not allow_padding and ce != end:
        raise StrictError("trailing bytes after scoped PDU")
    s = ber.Reader(data, cs, ce)
    out = {"ctx_engine_id": s.octets(), "ctx_name": s.octets(), "pad": end - ce}
    out["pdu"] = dec_pdu(data, s.off, s.end, request)
    return out


def selftest():
    # The literal v2c GET of the repository's unit tests
    data = bytes(
        [0x30, 0x35, 0x02, 0x01, 0x01, 0x04, 0x06, 0x70, 0x75, 0x62, 0x6C, 0x69, 0x63, 0xA0, 0x28, 0x02, 0x04, 0x63, 0xCC, 0xAC, 0x7D, 0x02, 0x01, 0x00, 0x02, 0x01, 0x00, 0x30, 0x1A, 0x30, 0x0B, 0x06, 0x07, 0x2B, 0x06, 0x01, 0x02, 0x01, 0x01, 0x03, 0x05, 0x00, 0x30, 0x0B, 0x06, 0x07, 0x2B, 0x06, 0x01, 0x02, 0x01, 0x01, 0x02, 0x05, 0x00]
    )
    m = decode_message(data)
    assert m["version"] == 1 and m["community"] == b"public"
    assert m["pdu"]["type"] == "get" and m["pdu"]["request_id"] == 0x63CCAC7D
    assert m["pdu"]["varbinds"] == [(1, 3, 6, 1, 2, 1, 1, 3), (1, 3, 6, 1, 2, 1, 1, 2)]
    # re-encode through the tree form
    node = community_msg(1, b"public", pdu_node(PDU_GET, 0x63CCAC7D, 0, 0, [((1, 3, 6, 1, 2, 1, 1, 3), ["null"]), ((1, 3, 6, 1, 2, 1, 1, 2), ["null"])]))
    assert node.encode() == data
    # The literal v3 message of the repository's unit tests
    v3 = bytes(
        [0x30, 0x40, 0x02, 0x01, 0x03, 0x30, 0x0F, 0x02, 0x03, 0x00, 0x91, 0xC8, 0x02, 0x02, 0x08, 0x00, 0x04, 0x01, 0x00, 0x02, 0x01, 0x03, 0x04, 0x15, 0x30, 0x13, 0x04, 0x00, 0x02, 0x01, 0x00, 0x02, 0x01, 0x00, 0x04, 0x05, 0x61, 0x64, 0x6D, 0x69, 0x6E, 0x04, 0x00, 0x04, 0x00, 0x30, 0x13, 0x04, 0x00, 0x04, 0x00, 0xA0, 0x0D, 0x02, 0x03, 0x00, 0x91, 0xC8, 0x02, 0x01, 0x00, 0x02, 0x01, 0x00, 0x30, 0x00]
    )
    m = decode_message(v3)
    assert m["msg_id"] == 37320 and m["usm"]["user"] == b"admin" and m["scoped"]["pdu"]["varbinds"] == []
    node = v3_msg(37320, 2048, 0, dict(engine_id=b"", boots=0, time=0, user=b"admin", auth=b"", priv=b""), scoped_pdu_node(b"", b"", pdu_node(PDU_GET, 37320, 0, 0, [])))
    assert node.encode() == v3
    # REAL reference
    assert real_denotation(bytes.fromhex("03313545 2d31".replace(" ", ""))) == 1.5
    assert real_denotation(bytes([0x80, 0x00, 0x03])) == 3.0
    assert real_denotation(bytes([0xC0, 0xFF, 0x03])) == -1.5
    assert real_denotation(bytes([0x80 | 0x04, 0x01, 0x01])) == 4.0
    return True
