"""Reference USM (RFC 3414, RFC 3826): key derivation, HMAC-96, DES-CBC, AES-128-CFB.

hashlib provides MD5/SHA-1; the two block ciphers are small pure-Python
implementations written from FIPS 46-3 / FIPS 197 and self-tested against the
standards' known-answer vectors.
"""

from __future__ import annotations

import hashlib
import hmac as _hmac

MD5, SHA1 = 1, 2
_HASH = {MD5: hashlib.md5, SHA1: hashlib.sha1}
KEYLEN = {MD5: 16, SHA1: 20}

_ku_cache: dict = {}


def password_to_key(alg: int, password: bytes) -> bytes:
    """RFC 3414 A.2.1 / A.2.2: hash 1 MiB of the repeated password."""
    k = (alg, password)
    r = _ku_cache.get(k)
    if r is None:
        if not password:
            raise ValueError("empty password")
        h = _HASH[alg]()
        n = 1048576
        reps = n // len(password) + 1
        h.update((password * reps)[:n])
        r = h.digest()
        if len(_ku_cache) < 4096:
            _ku_cache[k] = r
    return r


def localize(alg: int, ku: bytes, engine_id: bytes) -> bytes:
    return _HASH[alg](ku + engine_id + ku).digest()


def hmac96(alg: int, kul: bytes, msg: bytes) -> bytes:
    return _hmac.new(kul, msg, _HASH[alg]).digest()[:12]


# ---------------------------------------------------------------- DES (FIPS 46-3)
_IP = [58, 50, 42, 34, 26, 18, 10, 2, 60, 52, 44, 36, 28, 20, 12, 4, 62, 54, 46, 38, 30, 22, 14, 6, 64, 56, 48, 40, 32, 24, 16, 8, 57, 49, 41, 33, 25, 17, 9, 1, 59, 51, 43, 35, 27, 19, 11, 3, 61, 53, 45, 37, 29, 21, 13, 5, 63, 55, 47, 39, 31, 23, 15, 7]
_FP = [40, 8, 48, 16, 56, 24, 64, 32, 39, 7, 47, 15, 55, 23, 63, 31, 38, 6, 46, 14, 54, 22, 62, 30, 37, 5, 45, 13, 53, 21, 61, 29, 36, 4, 44, 12, 52, 20, 60, 28, 35, 3, 43, 11, 51, 19, 59, 27, 34, 2, 42, 10, 50, 18, 58, 26, 33, 1, 41, 9, 49, 17, 57, 25]
_E = [32, 1, 2, 3, 4, 5, 4, 5, 6, 7, 8, 9, 8, 9, 10, 11, 12, 13, 12, 13, 14, 15, 16, 17, 16, 17, 18, 19, 20, 21, 20, 21, 22, 23, 24, 25, 24, 25, 26, 27, 28, 29, 28, 29, 30, 31, 32, 1]
_P = [16, 7, 20, 21, 29, 12, 28, 17, 1, 15, 23, 26, 5, 18, 31, 10, 2, 8, 24, 14, 32, 27, 3, 9, 19, 13, 30, 6, 22, 11, 4, 25]
_PC1 = [57, 49, 41, 33, 25, 17, 9, 1, 58, 50, 42, 34, 26, 18, 10, 2, 59, 51, 43, 35, 27, 19, 11, 3, 60, 52, 44, 36, 63, 55, 47, 39, 31, 23, 15, 7, 62, 54, 46, 38, 30, 22, 14, 6, 61, 53, 45, 37, 29, 21, 13, 5, 28, 20, 12, 4]
_PC2 = [14, 17, 11, 24, 1, 5, 3, 28, 15, 6, 21, 10, 23, 19, 12, 4, 26, 8, 16, 7, 27, 20, 13, 2, 41, 52, 31, 37, 47, 55, 30, 40, 51, 45, 33, 48, 44, 49, 39, 56, 34, 53, 46, 42, 50, 36, 29, 32]
_SHIFTS = [1, 1, 2, 2, 2, 2, 2, 2, 1, 2, 2, 2, 2, 2, 2, 1]
_SBOX = [
    [14, 4, 13, 1, 2, 15, 11, 8, 3, 10, 6, 12, 5, 9, 0, 7, 0, 15, 7, 4, 14, 2, 13, 1, 10, 6, 12, 11, 9, 5, 3, 8, 4, 1, 14, 8, 13, 6, 2, 11, 15, 12, 9, 7, 3, 10, 5, 0, 15, 12, 8, 2, 4, 9, 1, 7, 5, 11, 3, 14, 10, 0, 6, 13],
    [15, 1, 8, 14, 6, 11, 3, 4, 9, 7, 2, 13, 12, 0, 5, 10, 3, 13, 4, 7, 15, 2, 8, 14, 12, 0, 1, 10, 6, 9, 11, 5, 0, 14, 7, 11, 10, 4, 13, 1, 5, 8, 12, 6, 9, 3, 2, 15, 13, 8, 10, 1, 3, 15, 4, 2, 11, 6, 7, 12, 0, 5, 14, 9],
    [10, 0, 9, 14, 6, 3, 15, 5, 1, 13, 12, 7, 11, 4, 2, 8, 13, 7, 0, 9, 3, 4, 6, 10, 2, 8, 5, 14, 12, 11, 15, 1, 13, 6, 4, 9, 8, 15, 3, 0, 11, 1, 2, 12, 5, 10, 14, 7, 1, 10, 13, 0, 6, 9, 8, 7, 4, 15, 14, 3, 11, 5, 2, 12],
    [7, 13, 14, 3, 0, 6, 9, 10, 1, 2, 8, 5, 11, 12, 4, 15, 13, 8, 11, 5, 6, 15, 0, 3, 4, 7, 2, 12, 1, 10, 14, 9, 10, 6, 9, 0, 12, 11, 7, 13, 15, 1, 3, 14, 5, 2, 8, 4, 3, 15, 0, 6, 10, 1, 13, 8, 9, 4, 5, 11, 12, 7, 2, 14],
    [2, 12, 4, 1, 7, 10, 11, 6, 8, 5, 3, 15, 13, 0, 14, 9, 14, 11, 2, 12, 4, 7, 13, 1, 5, 0, 15, 10, 3, 9, 8, 6, 4, 2, 1, 11, 10, 13, 7, 8, 15, 9, 12, 5, 6, 3, 0, 14, 11, 8, 12, 7, 1, 14, 2, 13, 6, 15, 0, 9, 10, 4, 5, 3],
    [12, 1, 10, 15, 9, 2, 6, 8, 0, 13, 3, 4, 14, 7, 5, 11, 10, 15, 4, 2, 7, 12, 9, 5, 6, 1, 13, 14, 0, 11, 3, 8, 9, 14, 15, 5, 2, 8, 12, 3, 7, 0, 4, 10, 1, 13, 11, 6, 4, 3, 2, 12, 9, 5, 15, 10, 11, 14, 1, 7, 6, 0, 8, 13],
    [4, 11, 2, 14, 15, 0, 8, 13, 3, 12, 9, 7, 5, 10, 6, 1, 13, 0, 11, 7, 4, 9, 1, 10, 14, 3, 5, 12, 2, 15, 8, 6, 1, 4, 11, 13, 12, 3, 7, 14, 10, 15, 6, 8, 0, 5, 9, 2, 6, 11, 13, 8, 1, 4, 10, 7, 9, 5, 0, 15, 14, 2, 3, 12],
    [13, 2, 8, 4, 6, 15, 11, 1, 10, 9, 3, 14, 5, 0, 12, 7, 1, 15, 13, 8, 10, 3, 7, 4, 12, 5, 6, 11, 0, 14, 9, 2, 7, 11, 4, 1, 9, 12, 14, 2, 0, 6, 10, 13, 15, 3, 5, 8, 2, 1, 14, 7, 4, 10, 8, 13, 15, 12, 9, 0, 3, 5, 6, 11],
]


def _permute(x: int, table, in_bits: int) -> int:
    out = 0
    for pos in table:
        out = (out << 1) | ((x >> (in_bits - pos)) & 1)
    return out


def _byte_tables(table, in_bits):
    """Per-input-byte lookup tables for a bit permutation."""
    nbytes = in_bits // 8
    tabs = []
    for bi in range(nbytes):
        shift = in_bits - 8 * (bi + 1)
        tabs.append([_permute(v << shift, table, in_bits) for v in range(256)])
    return tabs


_IP_T = _byte_tables(_IP, 64)
_FP_T = _byte_tables(_FP, 64)
_E_T = _byte_tables(_E, 32)
# SP boxes: S-box output already run through P
_SP = []
for _i in range(8):
    row = []
    for _v in range(64):
        r = ((_v >> 4) & 2) | (_v & 1)
        c = (_v >> 1) & 0xF
        s = _SBOX[_i][r * 16 + c]
        row.append(_permute(s << (28 - 4 * _i), _P, 32))
    _SP.append(row)


def _des_subkeys(key: bytes):
    k = _permute(int.from_bytes(key, "big"), _PC1, 64)
    c, d = k >> 28, k & 0xFFFFFFF
    out = []
    for s in _SHIFTS:
        c = ((c << s) | (c >> (28 - s))) & 0xFFFFFFF
        d = ((d << s) | (d >> (28 - s))) & 0xFFFFFFF
        out.append(_permute((c << 28) | d, _PC2, 56))
    return out


def _des_block(block: int, subkeys) -> int:
    t = _IP_T
    x = t[0][block >> 56] | t[1][(block >> 48) & 255] | t[2][(block >> 40) & 255] | t[3][(block >> 32) & 255] | t[4][(block >> 24) & 255] | t[5][(block >> 16) & 255] | t[6][(block >> 8) & 255] | t[7][block & 255]
    l, r = x >> 32, x & 0xFFFFFFFF
    e0, e1, e2, e3 = _E_T
    sp0, sp1, sp2, sp3, sp4, sp5, sp6, sp7 = _SP
    for k in subkeys:
        e = (e0[r >> 24] | e1[(r >> 16) & 255] | e2[(r >> 8) & 255] | e3[r & 255]) ^ k
        f = sp0[e >> 42] | sp1[(e >> 36) & 63] | sp2[(e >> 30) & 63] | sp3[(e >> 24) & 63] | sp4[(e >> 18) & 63] | sp5[(e >> 12) & 63] | sp6[(e >> 6) & 63] | sp7[e & 63]
        l, r = r, l ^ f
    x = (r << 32) | l
    t = _FP_T
    return t[0][x >> 56] | t[1][(x >> 48) & 255] | t[2][(x >> 40) & 255] | t[3][(x >> 32) & 255] | t[4][(x >> 24) & 255] | t[5][(x >> 16) & 255] | t[6][(x >> 8) & 255] | t[7][x & 255]


_sk_cache: dict = {}


def _sk(key: bytes):
    r = _sk_cache.get(key)
    if r is None:
        ks = _des_subkeys(key)
        r = (ks, ks[::-1])
        if len(_sk_cache) < 1024:
            _sk_cache[key] = r
    return r


def des_cbc_encrypt(key: bytes, iv: bytes, data: bytes) -> bytes:
    assert len(key) == 8 and len(iv) == 8 and len(data) % 8 == 0
    ks = _sk(key)[0]
    prev = int.from_bytes(iv, "big")
    out = bytearray()
    for i in range(0, len(data), 8):
        prev = _des_block(int.from_bytes(data[i : i + 8], "big") ^ prev, ks)
        out += prev.to_bytes(8, "big")
    return bytes(out)


def des_cbc_decrypt(key: bytes, iv: bytes, data: bytes) -> bytes:
    assert len(key) == 8 and len(iv) == 8 and len(data) % 8 == 0
    ks = _sk(key)[1]
    prev = int.from_bytes(iv, "big")
    out = bytearray()
    for i in range(0, len(data), 8):
        c = int.from_bytes(data[i : i + 8], "big")
        out += (_des_block(c, ks) ^ prev).to_bytes(8, "big")
        prev = c
    return bytes(out)


# ---------------------------------------------------------------- AES-128 (FIPS 197), encryption direction only
def _build_aes():
    sbox = [0] * 256
    p = q = 1
    while True:
        p = p ^ ((p << 1) & 0xFF) ^ (0x1B if p & 0x80 else 0)
        q ^= q << 1
        q ^= q << 2
        q ^= q << 4
        q &= 0xFF
        if q & 0x80:
            q ^= 0x09
        x = q ^ ((q << 1) | (q >> 7)) & 0xFF ^ ((q << 2) | (q >> 6)) & 0xFF ^ ((q << 3) | (q >> 5)) & 0xFF ^ ((q << 4) | (q >> 4)) & 0xFF
        sbox[p] = (x ^ 0x63) & 0xFF
        if p == 1:
            break
    sbox[0] = 0x63
    return sbox


_AES_S = _build_aes()


def _xt(a):
    return ((a << 1) ^ 0x1B) & 0xFF if a & 0x80 else a << 1


_T0 = []
for _s in _AES_S:
    _s2 = _xt(_s)
    _s3 = _s2 ^ _s
    _T0.append((_s2 << 24) | (_s << 16) | (_s << 8) | _s3)
_T1 = [((t >> 8) | (t << 24)) & 0xFFFFFFFF for t in _T0]
_T2 = [((t >> 16) | (t << 16)) & 0xFFFFFFFF for t in _T0]
_T3 = [((t >> 24) | (t << 8)) & 0xFFFFFFFF for t in _T0]


def _aes_expand(key: bytes):
    w = [int.from_bytes(key[i : i + 4], "big") for i in range(0, 16, 4)]
    rcon = 1
    S = _AES_S
    for i in range(4, 44):
        t = w[i - 1]
        if i % 4 == 0:
            t = ((t << 8) | (t >> 24)) & 0xFFFFFFFF
            t = (S[t >> 24] << 24) | (S[(t >> 16) & 255] << 16) | (S[(t >> 8) & 255] << 8) | S[t & 255]
            t ^= rcon << 24
            rcon = _xt(rcon)
        w.append(w[i - 4] ^ t)
    return w


_aes_cache: dict = {}


def aes_encrypt_block(key: bytes, block: bytes) -> bytes:
    w = _aes_cache.get(key)
    if w is None:
        w = _aes_expand(key)
        if len(_aes_cache) < 1024:
            _aes_cache[key] = w
    s0 = int.from_bytes(block[0:4], "big") ^ w[0]
    s1 = int.from_bytes(block[4:8], "big") ^ w[1]
    s2 = int.from_bytes(block[8:12], "big") ^ w[2]
    s3 = int.from_bytes(block[12:16], "big") ^ w[3]
    T0, T1, T2, T3 = _T0, _T1, _T2, _T3
    k = 4
    for _ in range(9):
        t0 = T0[s0 >> 24] ^ T1[(s1 >> 16) & 255] ^ T2[(s2 >> 8) & 255] ^ T3[s3 & 255] ^ w[k]
        t1 = T0[s1 >> 24] ^ T1[(s2 >> 16) & 255] ^ T2[(s3 >> 8) & 255] ^ T3[s0 & 255] ^ w[k + 1]
        t2 = T0[s2 >> 24] ^ T1[(s3 >> 16) & 255] ^ T2[(s0 >> 8) & 255] ^ T3[s1 & 255] ^ w[k + 2]
        t3 = T0[s3 >> 24] ^ T1[(s0 >> 16) & 255] ^ T2[(s1 >> 8) & 255] ^ T3[s2 & 255] ^ w[k + 3]
        s0, s1, s2, s3 = t0, t1, t2, t3
        k += 4
    S = _AES_S
    o0 = ((S[s0 >> 24] << 24) | (S[(s1 >> 16) & 255] << 16) | (S[(s2 >> 8) & 255] << 8) | S[s3 & 255]) ^ w[40]
    o1 = ((S[s1 >> 24] << 24) | (S[(s2 >> 16) & 255] << 16) | (S[(s3 >> 8) & 255] << 8) | S[s0 & 255]) ^ w[41]
    o2 = ((S[s2 >> 24] << 24) | (S[(s3 >> 16) & 255] << 16) | (S[(s0 >> 8) & 255] << 8) | S[s1 & 255]) ^ w[42]
    o3 = ((S[s3 >> 24] << 24) | (S[(s0 >> 16) & 255] << 16) | (S[(s1 >> 8) & 255] << 8) | S[s2 & 255]) ^ w[43]
    return o0.to_bytes(4, "big") + o1.to_bytes(4, "big") + o2.to_bytes(4, "big") + o3.to_bytes(4, "big")


def aes_cfb_encrypt(key: bytes, iv: bytes, data: bytes) -> bytes:
    """CFB-128; the last segment may be partial (RFC 3826 3.1.3)."""
    assert len(key) == 16 and len(iv) == 16
    out = bytearray()
    prev = iv
    for i in range(0, len(data), 16):
        ks = aes_encrypt_block(key, prev)
        seg = data[i : i + 16]
        c = bytes(a ^ b for a, b in zip(seg, ks))
        out += c
        prev = c
    return bytes(out)


def aes_cfb_decrypt(key: bytes, iv: bytes, data: bytes) -> bytes:
    assert len(key) == 16 and len(iv) == 16
    out = bytearray()
    prev = iv
    for i in range(0, len(data), 16):
        ks = aes_encrypt_block(key, prev)
        seg = data[i : i + 16]
        out += bytes(a ^ b for a, b in zip(seg, ks))
        prev = seg
    return bytes(out)


# ---------------------------------------------------------------- USM privacy (RFC 3414 8.1.1, RFC 3826 3.1)
DES, AES = 1, 2


def priv_encrypt(palg: int, kul: bytes, boots: int, time: int, salt: bytes, plain: bytes) -> bytes:
    if palg == DES:
        pad = (-len(plain)) % 8
        iv = bytes(a ^ b for a, b in zip(kul[8:16], salt))
        return des_cbc_encrypt(kul[:8], iv, plain + b"\0" * pad)
    iv = (boots & 0xFFFFFFFF).to_bytes(4, "big") + (time & 0xFFFFFFFF).to_bytes(4, "big") + salt
    return aes_cfb_encrypt(kul[:16], iv, plain)


def priv_decrypt(palg: int, kul: bytes, boots: int, time: int, salt: bytes, cipher: bytes) -> bytes:
    if len(salt) != 8:
        raise ValueError("salt length")
    if palg == DES:
        if len(cipher) % 8:
            raise ValueError("DES ciphertext length")
        iv = bytes(a ^ b for a, b in zip(kul[8:16], salt))
        return des_cbc_decrypt(kul[:8], iv, cipher)
    iv = (boots & 0xFFFFFFFF).to_bytes(4, "big") + (time & 0xFFFFFFFF).to_bytes(4, "big") + salt
    return aes_cfb_decrypt(kul[:16], iv, cipher)


def selftest():
    # FIPS 46 / classic worked example
    k = bytes.fromhex("133457799BBCDFF1")
    assert des_cbc_encrypt(k, b"\0" * 8, bytes.fromhex("0123456789ABCDEF")).hex().upper() == "85E813540F0AB405"
    assert des_cbc_decrypt(k, b"\0" * 8, bytes.fromhex("85E813540F0AB405")).hex().upper() == "0123456789ABCDEF"
    # NBS/NIST variable-plaintext vector
    assert des_cbc_encrypt(bytes.fromhex("0101010101010101"), b"\0" * 8, bytes.fromhex("8000000000000000")).hex().upper() == "95F8A5E5DD31D900"
    # CBC chaining round trip
    iv = bytes(range(8))
    pt = bytes(range(64))
    assert des_cbc_decrypt(k, iv, des_cbc_encrypt(k, iv, pt)) == pt
    # FIPS 197 appendix C.1
    assert aes_encrypt_block(bytes(range(16)), bytes.fromhex("00112233445566778899aabbccddeeff")).hex() == "69c4e0d86a7b0430d8cdb78070b4c55a"
    # FIPS 197 appendix B
    assert aes_encrypt_block(bytes.fromhex("2b7e151628aed2a6abf7158809cf4f3c"), bytes.fromhex("3243f6a8885a308d313198a2e0370734")).hex() == "3925841d02dc09fbdc118597196a0b32"
    # NIST SP 800-38A F.3.13 CFB128-AES128.Encrypt
    key = bytes.fromhex("2b7e151628aed2a6abf7158809cf4f3c")
    iv = bytes.fromhex("000102030405060708090a0b0c0d0e0f")
    pt = bytes.fromhex("6bc1bee22e409f96e93d7e117393172aae2d8a571e03ac9c9eb76fac45af8e51")
    ct = bytes.fromhex("3b3fd92eb72dad20333449f8e83cfb4ac8a64537a0b3a93fcde3cdad9f1ce58b")
    assert aes_cfb_encrypt(key, iv, pt) == ct and aes_cfb_decrypt(key, iv, ct) == pt
    # RFC 3414 A.3.1 / A.3.2 key derivation
    eng = bytes.fromhex("000000000000000000000002")
    ku = password_to_key(MD5, b"maplesyrup")
    assert ku.hex() == "9faf3283884e92834ebc9847d8edd963"
    assert localize(MD5, ku, eng).hex() == "526f5eed9fcce26f8964c2930787d82b"
    ku = password_to_key(SHA1, b"maplesyrup")
    assert ku.hex() == "9fb5cc0381497b3793528939ff788d5d79145211"
    assert localize(SHA1, ku, eng).hex() == "6695febc9288e36282235fc7151f128497b38f3f"
    return True
