"""Discrete-event simulator core: clock, event heap, datagram network, the
transport object handed to the extension's I/O seam, and the history log.

Nothing in here draws random numbers or reads a real clock: a run is a pure
function of its plan.
"""

from __future__ import annotations

import errno as _errno
import hashlib
import heapq
import json


class HarnessError(Exception):
    """A defect of the simulator itself (never reported as a violation)."""


class SimStepLimit(Exception):
    """The run exceeded its step budget (= the code under test fails to return)."""


class Dgram:
    __slots__ = ("id", "data", "label", "errno")

    def __init__(self, id, data, label, errno=None):
        self.id = id
        self.data = data
        self.label = label
        self.errno = errno


class Endpoint:
    __slots__ = ("idx", "fd", "queue", "tx_serial", "nonblocking_seen", "timeout_seen")

    def __init__(self, idx, fd):
        self.idx = idx
        self.fd = fd
        self.queue = []
        self.tx_serial = 0
        self.nonblocking_seen = None
        self.timeout_seen = None


class Sim:
    MAX_EVENTS = 200_000
    MAX_SPIN = 20_000

    def __init__(self):
        self.now = 0
        self._heap = []
        self._seq = 0
        self.events_run = 0
        self.hist = []  # list of tuples
        self.endpoints = {}  # fd -> Endpoint
        self.by_idx = {}
        self.harness_error = None
        self.dgram_seq = 0
        self.on_send = None  # callback(ep, serial, data) installed by the runner
        self.pre_send = None  # callback(ep, serial) -> errno | None, installed by the runner
        self.sleep_overshoot = None  # callable(ns) -> extra ns
        self.counters = {}
        self.step_limited = False
        self._spin_at = None
        self._spin_n = 0
        self.recv_cost_ns = 0  # "slow node": virtual time spent by the client per received datagram
        self.sched = None  # ThreadSched when caller threads are parked and released one at a time

    # ---- counters / probes
    def count(self, key, n=1):
        self.counters[key] = self.counters.get(key, 0) + n

    # ---- events
    def schedule(self, at_ns, fn):
        if at_ns < self.now:
            at_ns = self.now
        self._seq += 1
        heapq.heappush(self._heap, (at_ns, self._seq, fn))

    def next_event_time(self):
        return self._heap[0][0] if self._heap else None

    def run_one(self):
        at, _, fn = heapq.heappop(self._heap)
        if at > self.now:
            self.now = at
        self.events_run += 1
        if self.events_run > self.MAX_EVENTS:
            self.step_limited = True
            raise SimStepLimit("event budget exhausted")
        fn()

    def run_until(self, t_ns, stop=None):
        """Run events with time <= t_ns in order; stop early when stop() is true.
        Afterwards now == t_ns unless stopped early."""
        while self._heap and self._heap[0][0] <= t_ns:
            self.run_one()
            if stop is not None and stop():
                return True
        if t_ns > self.now:
            self.now = t_ns
        return False

    def log(self, *ev):
        self.hist.append(ev)

    # ---- endpoints
    def add_endpoint(self, idx, fd):
        ep = Endpoint(idx, fd)
        self.endpoints[fd] = ep
        self.by_idx[idx] = ep
        return ep

    def deliver(self, idx, data, label, delay_ns, errno=None):
        """Schedule a datagram (or a socket error) into session idx's receive queue."""
        self.dgram_seq += 1
        d = Dgram(self.dgram_seq, data, label, errno)
        ep = self.by_idx[idx]

        def arrive():
            ep.queue.append(d)
            self.log("enq", idx, self.now, d.id)

        self.schedule(self.now + delay_ns, arrive)
        return d

    # ---- transport protocol (called from Rust through the cfg seam)
    def send(self, fd, data):
        try:
            ep = self.endpoints[fd]
            ep.tx_serial += 1
            serial = ep.tx_serial
            data = bytes(data)
            err = self.pre_send(ep, serial) if self.pre_send is not None else None
            self.log("tx", ep.idx, serial, self.now, data.hex(), err)
            if err is not None:
                self.count("fault.send-errno")
                if getattr(self, "on_send_failed", None) is not None:
                    self.on_send_failed(ep, serial, data)
                raise OSError(err, "injected send error")
            if self.on_send is not None:
                self.on_send(ep, serial, data)
            if self.sched is not None:
                # a scheduling point while the caller still holds its pooled send buffer
                self.sched.maybe_yield()
        except OSError:
            raise
        except BaseException as e:  # simulator defect: remember, fail the call
            self.harness_error = e
            raise OSError(_errno.EIO, "harness error")

    def recv(self, fd, maxlen, timeout_ns, nonblocking):
        try:
            ep = self.endpoints[fd]
            ep.nonblocking_seen = nonblocking
            ep.timeout_seen = timeout_ns
            if not ep.queue and not nonblocking and self.sched is not None:
                # caller threads: park this one (it keeps its pooled buffer) and let the others run
                self.sched.park(lambda: bool(ep.queue), self.now + (timeout_ns if timeout_ns else 10**15))
            elif not ep.queue and not nonblocking:
                if timeout_ns == 0:
                    # a blocking socket without timeout would block forever
                    deadline = self.now + 10**15
                else:
                    deadline = self.now + timeout_ns
                self.run_until(deadline, stop=lambda: bool(ep.queue))
            if not ep.queue:
                # a caller that polls an empty non-blocking socket over and over without ever
                # letting (virtual) time pass is spinning: it would starve a real event loop
                if self._spin_at == (fd, self.now):
                    self._spin_n += 1
                    if self._spin_n > self.MAX_SPIN:
                        self.step_limited = True
                        raise SimStepLimit("busy polling of an empty socket (%d polls at one instant)" % self._spin_n)
                else:
                    self._spin_at = (fd, self.now)
                    self._spin_n = 0
                if self._spin_n < 3:
                    self.log("rx-none", ep.idx, self.now)
                return None
            d = ep.queue.pop(0)
            self.log("rx", ep.idx, self.now, d.id)
            if self.recv_cost_ns:
                self.count("fault.slow-client")
                self.run_until(self.now + self.recv_cost_ns)
            if d.errno is not None:
                raise OSError(d.errno, "injected recv error")
            return d.data
        except OSError:
            raise
        except BaseException as e:
            self.harness_error = e
            raise OSError(_errno.EIO, "harness error")

    def now_ns(self):
        return self.now

    # ---- clock seam of gufo.snmp.policer
    def perf_counter_ns(self):
        return self.now

    def sleep(self, seconds):
        ns = int(round(seconds * 1e9))
        extra = self.sleep_overshoot(ns) if self.sleep_overshoot else 0
        self.log("sleep", self.now, ns, extra)
        if self.sched is not None:
            self.sched.park(lambda: False, self.now + ns + extra)
            return
        self.run_until(self.now + ns + extra)

    # ---- trace hash
    def trace_hash(self):
        h = hashlib.sha256()
        for ev in self.hist:
            h.update(json.dumps(ev, sort_keys=True, default=str).encode())
            h.update(b"\n")
        return h.hexdigest()
