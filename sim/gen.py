"""Seeded generators shared by the property plans (boundary-biased)."""

from __future__ import annotations

from . import ber, usm

ARC_EDGES = [0, 1, 2, 39, 40, 127, 128, 129, 255, 256, 16383, 16384, 2**21 - 1, 2**21, 2**28 - 1, 2**28, 2**31 - 1, 2**31, 2**32 - 1]


def arc(rng, small=0.6):
    r = rng.random()
    if r < small:
        return rng.randrange(0, 20)
    if r < small + 0.25:
        return rng.choice(ARC_EDGES)
    return rng.randrange(0, 2**32)


def oid(rng, prefix=(1, 3, 6, 1), min_extra=1, max_extra=6, small=0.6):
    n = rng.randint(min_extra, max_extra)
    return tuple(prefix) + tuple(arc(rng, small) for _ in range(n))


def second_arc_under_2(rng):
    """Second arc below 2 (joint-iso-itu-t): any value whose first subidentifier 80 + Y fits 32 bits."""
    return rng.choice([0, 39, 40, 47, 48, 100, 175, 176, 999, 16303, 16304, 2097071, 2097072, 2**28 - 81, 2**28 - 80, 2**32 - 81, rng.randrange(40, 2**32 - 80)])


def oid_text(arcs):
    return ber.oid_text(arcs)


INT_EDGES = []
for k in range(1, 9):
    for d in (-1, 0, 1):
        INT_EDGES += [2 ** (8 * k - 1) + d, -(2 ** (8 * k - 1)) + d, 2 ** (8 * k) + d, -(2 ** (8 * k)) + d]
INT_EDGES = sorted({x for x in INT_EDGES if -(2**63) <= x <= 2**63 - 1} | {0, 1, -1})


def int64(rng):
    r = rng.random()
    if r < 0.4:
        return rng.choice(INT_EDGES)
    if r < 0.6:
        return rng.randrange(-300, 300)
    k = rng.randint(1, 8)
    return rng.randrange(-(2 ** (8 * k - 1)), 2 ** (8 * k - 1))


def uint(rng, bits):
    r = rng.random()
    if r < 0.4:
        edges = [0, 1, 127, 128, 255, 256, 2**15, 2**16 - 1, 2**16, 2**24 - 1, 2**24, 2**31 - 1, 2**31, 2**32 - 1, 2**32, 2**56, 2**63 - 1, 2**63, 2**64 - 1]
        return rng.choice([e for e in edges if e < 2**bits])
    k = rng.randint(1, bits // 8)
    return rng.randrange(0, 2 ** (8 * k))


LEN_WIDTHS = [1, 2, 3, 3, 4, 4, 5, 6, 7, 8, 8, 9, 12, 20, 126]


def len_width(rng):
    """Number of length octets of a (legal, non-minimal) long-form length: X.690 8.1.3.5 allows 1..126."""
    return rng.choice(LEN_WIDTHS)


WIDTH_NAMES_COMMON = ["message", "version", "pdu", "request-id", "error-status", "error-index", "varbinds", "varbind", "name"]
WIDTH_NAMES_V12 = ["community"]
WIDTH_NAMES_V3 = ["global", "msg-id", "max-size", "flags", "sec-model", "sec-params", "usm", "usm-engine-id", "usm-boots", "usm-time", "usm-user", "usm-auth", "usm-priv", "scoped-pdu", "ctx-engine-id", "ctx-name", "encrypted"]


def widths(rng, v3):
    """A `widths` rewrite: a few header elements of a reply written with long-form lengths."""
    names = WIDTH_NAMES_COMMON + (WIDTH_NAMES_V3 if v3 else WIDTH_NAMES_V12)
    k = rng.choice([1, 1, 2, 3, len(names)])
    return {n: rng.choice([1, 2, 3, 4, 8]) if rng.random() < 0.8 else len_width(rng) for n in rng.sample(names, k)}


def berlike(rng):
    """Octets that themselves look like BER: nested TLVs, the net-snmp Opaque wrappers for
    float / double / int64 / uint64 (9f 78 04 .., 9f 79 08 .., 9f 7a .., 9f 7b ..), a whole varbind."""
    r = rng.random()
    if r < 0.35:
        t, n = rng.choice([(0x78, 4), (0x79, 8), (0x7A, 8), (0x7B, 8), (0x76, 4), (0x77, 4)])
        if rng.random() < 0.2:
            n = rng.choice([0, 1, 3, 5, 9])
        return bytes([0x9F, t, n]) + bytes(rng.randrange(256) for _ in range(n if rng.random() < 0.9 else max(0, n - 1)))
    if r < 0.7:
        tag = rng.choice([0x02, 0x04, 0x05, 0x06, 0x30, 0x40, 0x41, 0x44, 0x46, 0x80, 0x81, 0x82, 0xA2])
        body = bytes(rng.randrange(256) for _ in range(rng.randint(0, 12)))
        return bytes([tag, len(body)]) + body
    if r < 0.85:
        return bytes.fromhex("300c06082b060102010105000500")
    inner = bytes(rng.randrange(256) for _ in range(rng.randint(0, 6)))
    return bytes([0x44, len(inner) + 2, 0x04, len(inner)]) + inner


def octets(rng, maxlen=40):
    r = rng.random()
    if r < 0.15:
        n = 0
    elif r < 0.8:
        n = rng.randint(1, maxlen)
    elif r < 0.985:
        n = rng.choice([127, 128, 129, 255, 256, 300])
    else:
        n = rng.choice([1000, 2000, 3000])
        return rng.randbytes(n)
    return bytes(rng.randrange(256) for _ in range(n))


REAL_DECIMAL = ["0", "1", "-1", "456", "-456", "456.7", "-456.7", "4567e-1", "1E+0", "15E-1", "0.5", "+7", "123456789", "1e10", "-2.5e-3", "4294967296", "-99999999999", "0007", "3.14159265358979", "1.7976931348623157e308", "5e-324", "0.1", "456,7", "-456,7", "4567,E-1", " 456", "  -456", " 456.7", "  0,5", " 15E-1", "1,5e3", "456.", "456,", ".5", ",5", "+,5E+2"]


def real_content(rng, allow_binary=True):
    """REAL contents octets (hex) in the plain ISO 6093 subset, special values
    or binary form."""
    r = rng.random()
    if r < 0.1:
        return ""
    if r < 0.25:
        return bytes([rng.choice([0x40, 0x41, 0x42, 0x43])]).hex()
    if r < 0.7 or not allow_binary:
        s = rng.choice(REAL_DECIMAL)
        if "e" in s.lower():
            form = 3
        elif "." in s or "," in s:
            form = 2
        else:
            form = 1
        return (bytes([form]) + s.encode()).hex()
    # binary: sign, base, scale, exponent length 1..3 octets, mantissa 1..6 octets
    sign = rng.choice([0, 0x40])
    base = rng.choice([0x00, 0x10, 0x20])
    scale = rng.randint(0, 3)
    el = rng.randint(0, 3)
    e = rng.choice([rng.randrange(-20, 20), rng.randrange(-20, 20), 0, 1, -1, 127, -128, 128, -129, 255, 256, 1023, -1074, 32767, -32768, 2**29, -(2**29), 2**30, -(2**30), 2**31 - 1, -(2**31)])
    if el == 3:
        # X.690 8.5.7.4 d): the next octet holds the number of exponent octets
        lo = max(1, (e.bit_length() + 8) // 8)
        n = rng.randint(lo, max(4, lo))
        eb = bytes([n]) + e.to_bytes(n, "big", signed=True)
    else:
        e = max(-(2 ** (8 * (el + 1) - 1)), min(2 ** (8 * (el + 1) - 1) - 1, e))
        eb = e.to_bytes(el + 1, "big", signed=True)
    m = rng.randrange(1, 2 ** rng.choice([8, 16, 24, 32, 40, 48]))
    mb = m.to_bytes((m.bit_length() + 7) // 8, "big")
    return (bytes([0x80 | sign | base | (scale << 2) | el]) + eb + mb).hex()


DATA_KINDS = ["int", "octets", "oid", "ipaddr", "counter32", "gauge32", "timeticks", "opaque", "counter64", "uinteger32", "bool", "objdesc", "real"]
SAFE_KINDS = ["int32", "octets", "oid", "ipaddr", "counter32", "gauge32", "timeticks", "opaque", "counter64", "uinteger32", "bool", "objdesc"]


def value(rng, kinds=DATA_KINDS, real_binary=True):
    k = rng.choice(kinds)
    opts = {}
    if rng.random() < 0.1:
        opts["w"] = len_width(rng)
    if k == "int":
        v = ["int", int64(rng)]
    elif k == "int32":
        v = ["int", rng.choice([0, 1, -1, 127, 128, -128, -129, 2**31 - 1, -(2**31), rng.randrange(-(2**31), 2**31)])]
    elif k in ("counter32", "gauge32", "timeticks", "uinteger32"):
        v = [k, uint(rng, 32)]
        opts["lz"] = rng.random() < 0.7
    elif k == "counter64":
        v = [k, uint(rng, 64)]
        opts["lz"] = rng.random() < 0.7
    elif k in ("octets", "opaque", "objdesc"):
        v = [k, (berlike(rng) if rng.random() < (0.3 if k == "opaque" else 0.08) else octets(rng)).hex()]
    elif k == "oid":
        first = rng.choice([0, 1, 2])
        second = second_arc_under_2(rng) if first == 2 and rng.random() < 0.4 else rng.randrange(0, 40)
        v = ["oid", oid_text(oid(rng, prefix=(first, second), min_extra=0, max_extra=8))]
    elif k == "ipaddr":
        v = ["ipaddr", ".".join(str(rng.choice([0, 1, 127, 128, 255, rng.randrange(256)])) for _ in range(4))]
    elif k == "bool":
        v = ["bool", rng.random() < 0.5]
        if v[1] and rng.random() < 0.4:
            opts["tv"] = rng.choice([0x01, 0x02, 0x7F, 0x80, 0xFE])
    elif k == "real":
        v = ["real", real_content(rng, real_binary)]
    else:
        raise ValueError(k)
    if opts:
        v.append(opts)
    return v


def mib(rng, base=(1, 3, 6, 1), n=None, kinds=SAFE_KINDS, spread=3):
    """A random finite MIB around `base`: rows below it, siblings before/after."""
    n = rng.randint(0, 12) if n is None else n
    rows = {}
    for _ in range(n):
        r = rng.random()
        if r < 0.7:
            o = oid(rng, prefix=base, min_extra=1, max_extra=spread)
        elif r < 0.85 and len(base) > 2:
            # sibling subtree sharing a byte prefix
            last = base[-1]
            o = base[:-1] + (rng.choice([last + 1, max(0, last - 1), last * 128 + 1, last + 128]),) + tuple(arc(rng) for _ in range(rng.randint(0, 2)))
        else:
            o = oid(rng, prefix=(1, 3), min_extra=1, max_extra=4)
        rows[o] = value(rng, kinds)
    return [[oid_text(o), v] for o, v in sorted(rows.items())]


# ---------------------------------------------------------------- sessions / users
PASSWORDS = [b"maplesyrup", b"authpass12", b"x", b"12345678", b"a" * 64, b"correct horse battery staple", b"k" * 7]
# pass phrases that *look* like something else (hex / snmpd.conf notation, numbers, quoted or padded text,
# octets that are not text): a pass phrase is used octet for octet, whatever it looks like
ODD_PASSWORDS = [b"0xdeadbeefcafe", b"0x0102030405060708", b"0X00", b"0x", b"deadbeefdeadbeef", b"1234567890", b" padded pass ", b'"quoted"', b"pass\x00word", b"\x00" * 8, b"\xff\xfe\xfd\xfc\xfb\xfa\xf9\xf8", b"p\xc3\xa4ssw\xc3\xb6rd", b"tab\tand\nnewline", b"a" * 63, b"a" * 65, b"b" * 1024, b"MD5", b"None", b"localized:abcdef"]


def password(rng):
    return rng.choice(ODD_PASSWORDS) if rng.random() < 0.3 else rng.choice(PASSWORDS)
ENGINE_IDS = ["80001f8880aabbccdd", "8000000001020304", "80001f88" + "11" * 28, "0102030405", "80" + "ff" * 11]


def engine_id(rng):
    r = rng.random()
    if r < 0.6:
        return rng.choice(ENGINE_IDS)
    if r < 0.66:
        # RFC 3411 says 5..32 octets; nothing in the protocol encoding or the library enforces it
        n = rng.choice([1, 4, 33, 64, 127, 128, 129, 200, 255, 256, 300])
        return bytes(rng.randrange(256) for _ in range(n)).hex()
    n = rng.randint(5, 32)
    return bytes(rng.randrange(256) for _ in range(n)).hex()


def key_spec(rng, alg, ktype, engine_hex, kind):
    """Key material for a user spec. `alg` is the *auth* algorithm (privacy keys
    are derived with the auth digest). Master/localized keys are computed with the
    reference so that agent and client share the same secret."""
    pw = password(rng)
    if ktype == "password":
        return pw.hex()
    ku = usm.password_to_key(alg, pw)
    key = ku if ktype == "master" else usm.localize(alg, ku, bytes.fromhex(engine_hex))
    # Keys shorter than the digest are legal: the API pads them with trailing zero octets
    # (a 16-octet privacy key under SHA-1; an auth key with its trailing zeros left out).
    r = rng.random()
    if kind == "priv" and len(key) > 16 and r < 0.3:
        key = key[:16]
    elif kind == "auth" and r < 0.12:
        key = key[: len(key) - rng.randint(1, 4)]
    return key.hex()


SEC_LEVELS = ["noauth", "md5", "sha", "md5-des", "md5-aes", "sha-des", "sha-aes"]


def user(rng, level, engine_hex, name=None, ktypes=None):
    name = name if name is not None else rng.choice(["u1", "admin", "user-with-a-long-name-0123456789", "x", "u1", "admin", "\u00fcser-\u00f1ame", "u" * 32, "n" * rng.choice([33, 127, 128, 200])])
    u = {"name": name}
    if level == "noauth":
        return u
    a, _, p = level.partition("-")
    alg = {"md5": 1, "sha": 2}[a]
    kt = rng.choice(ktypes or ["password", "master", "localized"])
    u["auth"] = {"alg": alg, "type": kt, "key": key_spec(rng, alg, kt, engine_hex, "auth")}
    if p:
        palg = {"des": 1, "aes": 2}[p]
        kt2 = rng.choice(ktypes or ["password", "master", "localized"])
        u["priv"] = {"alg": palg, "type": kt2, "key": key_spec(rng, alg, kt2, engine_hex, "priv")}
        if rng.random() < 0.15:
            # the very same octets given as both keys (possibly under two different key types):
            # a digest-sized string is a legal pass phrase, master key and localized key alike
            k = bytes(rng.randrange(256) for _ in range(16 if alg == 1 else 20)).hex()
            u["auth"]["key"] = k
            u["priv"]["key"] = k
    return u


def timeout_ns(rng):
    return rng.choice([500_000_000, 1_000_000_000, 1_500_000_000, 2_000_000_000, 3_000_000_000, 10_000_000_000])


def latency(rng, lo=1_000, hi=50_000_000):
    return rng.randrange(lo, hi) | 1
