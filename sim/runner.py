"""Plan executor: drives the real gufo.snmp client (Python package + _fast
extension built with --cfg gufo_snmp_verif) against the simulated network,
clock, entropy and agent, and records the history.

A plan is plain JSON data; executing it is deterministic.
"""

from __future__ import annotations

import asyncio
import copy
import math
import os
import random
import selectors
import sys

from . import ber, faults, snmp
from .agent import Agent, Reply
from .core import HarnessError, Sim, SimStepLimit

PKG_DIR = os.environ.get("VERIF_PKG", os.path.join(os.path.dirname(os.path.dirname(os.path.abspath(__file__))), ".build", "pkg"))

_gufo = None


class Gufo:
    """Handles to the code under test (imported once per process)."""

    def __init__(self):
        if PKG_DIR not in sys.path:
            sys.path.insert(0, PKG_DIR)
        import gufo.snmp as pkg
        import gufo.snmp._fast as fast
        import gufo.snmp.async_client as aclient
        import gufo.snmp.policer as policer
        import gufo.snmp.sync_client as sclient
        import gufo.snmp.user as user
        from gufo.snmp.version import SnmpVersion

        self.pkg, self.fast, self.aclient, self.sclient, self.policer, self.user = pkg, fast, aclient, sclient, policer, user
        self.SnmpVersion = SnmpVersion
        self.documented = (
            fast.SnmpError,
            TimeoutError,
            BlockingIOError,
            OSError,
            ValueError,
            StopIteration,
            StopAsyncIteration,
        )


def gufo() -> Gufo:
    global _gufo
    if _gufo is None:
        _gufo = Gufo()
    return _gufo


# ---------------------------------------------------------------- outcome normalisation
def norm(v):
    if v is None:
        return ["none"]
    if isinstance(v, bool):
        return ["bool", v]
    if isinstance(v, int):
        return ["int", v]
    if isinstance(v, float):
        if math.isnan(v):
            return ["float", "nan"]
        return ["float", repr(v)]
    if isinstance(v, bytes):
        return ["bytes", v.hex()]
    if isinstance(v, str):
        return ["str", v]
    if isinstance(v, dict):
        return ["dict", [[k, norm(x)] for k, x in v.items()]]
    if isinstance(v, (list, tuple)):
        return ["list", [norm(x) for x in v]]
    return ["other", repr(v)]


def denorm(n):
    k = n[0]
    if k == "none":
        return None
    if k in ("bool", "int", "str"):
        return n[1]
    if k == "float":
        return float(n[1])
    if k == "bytes":
        return bytes.fromhex(n[1])
    if k == "dict":
        return {a: denorm(b) for a, b in n[1]}
    if k == "list":
        return [denorm(x) for x in n[1]]
    return n[1]


def exc_outcome(e: BaseException):
    g = gufo()
    names = [c.__name__ for c in type(e).__mro__]
    return {"exc": type(e).__name__, "mro": names, "msg": str(e)[:200], "documented": isinstance(e, g.documented)}


# ---------------------------------------------------------------- virtual-time asyncio
def _oids_arg(op):
    """get_many takes any iterable of OID strings: a list, a tuple, a one-shot generator."""
    how = op.get("as", "list")
    if how == "tuple":
        return tuple(op["oids"])
    if how == "gen":
        return (o for o in op["oids"])
    return list(op["oids"])


class SimSelector(selectors._BaseSelectorImpl):
    def __init__(self, sim: Sim, order_rng):
        super().__init__()
        self.sim = sim
        self.order_rng = order_rng
        self._idle_at = -1
        self._idle_polls = 0
        self._spin_sig = None
        self._spins = 0

    def _ready(self):
        out = []
        eps = self.sim.endpoints
        for fd, key in self._fd_to_key.items():
            ep = eps.get(fd)
            if ep is None:
                continue
            ev = 0
            if key.events & selectors.EVENT_READ and ep.queue:
                ev |= selectors.EVENT_READ
            if key.events & selectors.EVENT_WRITE:
                ev |= selectors.EVENT_WRITE
            if ev:
                out.append((ep.idx, key, ev))
        out.sort(key=lambda x: x[0])
        if len(out) > 1:
            self.order_rng.shuffle(out)
            self.sim.count("sched.ready-order-choice")
        return [(k, ev) for _, k, ev in out]

    def select(self, timeout=None):
        r = self._ready()
        sim = self.sim
        if r:
            # A reader that never consumes what is ready makes a real loop spin, burning real time
            # until its next timer is due. Virtual time does not pass by itself: after many polls
            # at one instant with nothing consumed, let the time up to the next timer pass.
            sig = (sim.now, tuple((k.fd, len(sim.endpoints[k.fd].queue)) for k, _ in r))
            if sig == self._spin_sig:
                self._spins += 1
                if self._spins > 200:
                    sim.count("sched.busy-loop")
                    self._spins = 0
                    if timeout is None:
                        raise SimStepLimit("event loop spins on a ready descriptor nobody reads (no timer pending)")
                    if timeout > 0:
                        sim.run_until(sim.now + max(1, int(round(timeout * 1e9))))
                        return self._ready()
            else:
                self._spin_sig = sig
                self._spins = 0
            return r
        if timeout is not None and timeout <= 0:
            # The loop clock is a float. Far from the origin a due timer can compare
            # equal to time() + resolution and never fire while the (real) clock
            # would simply move on: after many idle polls at one instant, tick once.
            if self._idle_at == sim.now:
                self._idle_polls += 1
                if self._idle_polls > 64:
                    sim.now += max(1, int(sim.now * 2.3e-16))
                    sim.count("sched.float-clock-tick")
            else:
                self._idle_at = sim.now
                self._idle_polls = 0
            return []
        if timeout is None:
            if sim.next_event_time() is None:
                raise HarnessError("event loop would block forever (no timers, no events)")
            deadline = 10**18
        else:
            deadline = sim.now + max(1, int(round(timeout * 1e9)))
            # the loop clock is a float: make sure the advance is visible through it
            target = sim.now / 1e9 + timeout
            while deadline / 1e9 < target:
                deadline += max(1, int(deadline * 2.3e-16))
        sim.run_until(deadline, stop=lambda: bool(self._ready_quick()))
        return self._ready()

    def _ready_quick(self):
        eps = self.sim.endpoints
        for fd, key in self._fd_to_key.items():
            ep = eps.get(fd)
            if ep is not None and key.events & selectors.EVENT_READ and ep.queue:
                return True
        return False


class SimLoop(asyncio.SelectorEventLoop):
    def __init__(self, sim: Sim, order_rng):
        self._sim = sim
        super().__init__(SimSelector(sim, order_rng))

    def time(self):
        return self._sim.now / 1e9


# ---------------------------------------------------------------- caller threads under a seeded scheduler
class ThreadSched:
    """Real caller threads, released one at a time. A thread runs until it parks
    (blocking receive on an empty queue, sleep), yields at a scheduling point, or ends;
    then the scheduler - using only the plan's seed - picks who runs next, or advances
    virtual time when every thread is parked. Who runs is never left to the OS."""

    MAIN = -1

    def __init__(self, sim, rng, yield_p=0.3):
        import threading

        self.sim = sim
        self.rng = rng
        self.yield_p = yield_p
        self.cond = threading.Condition()
        self.current = self.MAIN
        self.state = {}  # tid -> "runnable" | ("parked", ready_fn, deadline) | "done"
        self.by_ident = {}
        self.errors = []
        self.switches = 0

    def _me(self):
        import threading

        return self.by_ident[threading.get_ident()]

    def _handoff_and_wait(self, me):
        with self.cond:
            self.current = self.MAIN
            self.cond.notify_all()
            while self.current != me:
                self.cond.wait()

    def park(self, ready_fn, deadline):
        me = self._me()
        self.state[me] = ("parked", ready_fn, deadline)
        self._handoff_and_wait(me)

    def maybe_yield(self):
        if self.rng.random() < self.yield_p:
            me = self._me()
            self.state[me] = "runnable"
            self.sim.count("sched.thread-yield")
            self._handoff_and_wait(me)

    def run(self, fns):
        import threading

        threads = []
        for tid, fn in enumerate(fns):
            self.state[tid] = "runnable"

            def body(tid=tid, fn=fn):
                self.by_ident[threading.get_ident()] = tid
                with self.cond:
                    while self.current != tid:
                        self.cond.wait()
                try:
                    fn()
                except BaseException as e:  # noqa: BLE001
                    self.errors.append(e)
                self.state[tid] = "done"
                with self.cond:
                    self.current = self.MAIN
                    self.cond.notify_all()

            t = threading.Thread(target=body, daemon=True)
            threads.append(t)
            t.start()
        sim = self.sim
        while True:
            runnable = sorted(t for t, st in self.state.items() if st == "runnable")
            if runnable:
                nxt = self.rng.choice(runnable)
                self.switches += 1
                with self.cond:
                    self.current = nxt
                    self.cond.notify_all()
                    while self.current != self.MAIN:
                        self.cond.wait()
                continue
            parked = [(t, st) for t, st in self.state.items() if isinstance(st, tuple)]
            if not parked:
                break
            # everybody waits: let virtual time pass until somebody can go on
            target = min(st[2] for _, st in parked)
            sim.run_until(target, stop=lambda: any(st[1]() for _, st in parked))
            for t, st in parked:
                if st[1]() or sim.now >= st[2]:
                    self.state[t] = "runnable"
            held = sum(1 for _, st in parked)
            if held >= 3:
                sim.count("probe.three-threads-parked-holding-buffers")
        for t in threads:
            t.join(timeout=10)
        if self.errors:
            e = self.errors[0]
            if isinstance(e, HarnessError):
                raise e
            raise HarnessError("caller thread failed: %r" % (e,)) from e


# ---------------------------------------------------------------- the run
DEFAULT_SCRIPT = {"replies": [{"k": "genuine"}]}


class Run:
    def __init__(self, plan):
        self.plan = plan
        self.g = gufo()
        self.sim = Sim()
        # one agent by default; "agents" (list) + per-session "agent": k gives several
        # authoritative engines in one process (cross-session history between engines)
        self.agents = [Agent(a, self.sim) for a in plan.get("agents", [plan.get("agent", {})])]
        self.agent = self.agents[0]
        self.sessions = []
        self.sess_cfg = plan.get("sessions", [])
        self.results = []  # per op: dict
        self.session_failures = []
        self.wire = {}  # idx -> list of dicts (decoded request summaries) in tx order
        self.wire_dec = {}  # (idx, serial) -> oracle.decode_wire result
        self.genuine = {}  # "opid:k" -> Reply (pristine clone source)
        self.dgrams = {}  # dgram id -> dict(label, hex, s)
        self.shared = {}  # key / user objects shared between sessions (plan["share_objects"])
        self.latency = plan.get("latency_ns", 1_000_001)
        self.sim.on_send = self.on_send
        self.sim.on_send_failed = self.on_send_failed
        self.sim.pre_send = self.pre_send
        self.sim.recv_cost_ns = plan.get("recv_cost_ns", 0)
        self.cur_op = {}  # session idx -> [op id, requests sent within the op]
        self.key_of = {}  # (idx, serial) -> "opid:k"
        ov = plan.get("sleep_overshoot")
        if ov:
            seq = list(ov)
            state = {"i": 0}

            def overshoot(ns):
                x = seq[state["i"] % len(seq)]
                state["i"] += 1
                return x

            self.sim.sleep_overshoot = overshoot

    # ---- network script
    def pre_send(self, ep, serial):
        cur = self.cur_op.setdefault(ep.idx, ["x%d" % ep.idx, 0])
        cur[1] += 1
        key = "%s:%d" % (cur[0], cur[1])
        self.key_of[(ep.idx, serial)] = key
        return self.plan.get("send_errors", {}).get(key)

    def agent_of(self, idx):
        k = self.sess_cfg[idx].get("agent", 0) if idx < len(self.sess_cfg) else 0
        return self.agents[k % len(self.agents)]

    def script_for(self, idx, serial):
        return self.plan.get("scripts", {}).get(self.key_of[(idx, serial)], DEFAULT_SCRIPT)

    def wire_ids(self, idx):
        w = self.wire.get(idx, [])
        return w

    def on_send(self, ep, serial, data):
        idx = ep.idx
        from . import oracle

        dec = oracle.decode_wire(self, idx, data)
        self.wire_dec[(idx, serial)] = dec
        summ = {"serial": serial, "t": self.sim.now, "hex": data.hex(), "decoded": dec["ok"]}
        if dec["ok"]:
            summ["version"] = dec["version"]
            summ["request_id"] = dec["request_id"]
            if dec["version"] == 3:
                summ["msg_id"] = dec["msg_id"]
        else:
            summ["error"] = dec.get("error")
        self.wire.setdefault(idx, []).append(summ)
        script = self.script_for(idx, serial)
        req = script.get("req")
        answers = (idx, serial)
        base = None
        if req == "drop":
            self.sim.count("fault.req-drop")
        else:
            reps = self.agent_of(idx).handle(data, answers)
            base = reps[0] if reps else None
        self.genuine[self.key_of[(idx, serial)]] = base
        items = script.get("replies", DEFAULT_SCRIPT["replies"])
        for item in items:
            self.emit(idx, serial, item, base, data)

    def on_send_failed(self, ep, serial, data):
        """The local stack refused the datagram: nobody receives it, but it was built (ids, salts
        and counters were consumed) - decode it for the oracles that follow the session's state."""
        from . import oracle

        dec = oracle.decode_wire(self, ep.idx, data)
        dec["send_failed"] = True
        self.wire_dec[(ep.idx, serial)] = dec
        self.genuine[self.key_of[(ep.idx, serial)]] = None

    def id_ctx(self, idx, serial):
        # only the most recent earlier id is ever looked at (faults.resolve_id "prev")
        w = self.wire.get(idx, [])
        cur = w[-1] if w else {}
        rid = cur.get("request_id") or 0
        prev, prev_msg = [], []
        for x in reversed(w[:-1] if len(w) < 64 else w[-64:-1]):
            if not prev and x.get("request_id") is not None:
                prev = [x["request_id"]]
            if not prev_msg and x.get("msg_id") is not None:
                prev_msg = [x["msg_id"]]
            if prev and prev_msg:
                break
        return {"cur": rid, "prev": prev, "cur_msg": cur.get("msg_id", 0) or 0, "prev_msg": prev_msg}

    def emit(self, idx, serial, item, base, req_data):
        k = item.get("k", "genuine")
        delay = item.get("delay_ns", self.latency)
        sim = self.sim
        if k == "none":
            sim.count("fault.reply-drop")
            return
        if k == "sockerr":
            sim.count("fault.recv-errno")
            d = sim.deliver(idx, b"", {"wf": None, "why": "sockerr", "errno": item["errno"]}, delay, errno=item["errno"])
            self.dgrams[d.id] = {"s": idx, "label": d.label, "hex": ""}
            return
        if k == "reflect":
            sim.count("fault.reflect")
            label = {"wf": True, "why": "reflect", "reflect": True, "answers": [idx, serial]}
            d = sim.deliver(idx, req_data, label, delay)
            self.dgrams[d.id] = {"s": idx, "label": label, "hex": req_data.hex()}
            return
        if k == "raw":
            sim.count("fault.raw")
            data = bytes.fromhex(item["hex"])
            label = {"wf": item.get("wf"), "why": "raw", "answers": [idx, serial]}
            d = sim.deliver(idx, data, label, delay)
            self.dgrams[d.id] = {"s": idx, "label": label, "hex": data.hex()}
            return
        if k == "stale":
            # the genuine reply to an earlier request of this session, delivered now
            src = self.genuine.get(item["of"])
            if src is None:
                return
            rep = src.clone()
            rep.label["stale"] = True
            sim.count("fault.stale")
        elif k == "custom":
            if base is None:
                # the agent did not answer (request lost, or nothing to say): an attacker can still
                # answer what he saw on the wire, at noAuthNoPriv level
                base = self.synth_base(idx, serial)
                if base is None:
                    return
            rep = self.custom_reply(idx, serial, item, base)
            sim.count("agent.custom")
        else:
            if base is None:
                return
            rep = base.clone()
        ctx = self.id_ctx(idx, serial)
        if item.get("rewrite"):
            faults.apply_rewrites(rep, item["rewrite"], ctx)
            for f in item["rewrite"]:
                sim.count("fault.rewrite." + f)
        if item.get("inner"):
            faults.apply_inner(rep, item["inner"])
            for op in item["inner"]:
                sim.count("fault.inner." + op["op"])
        if item.get("fit_total"):
            # size the datagram exactly: grow / shrink the last OCTET STRING value until the final
            # (signed, encrypted) message has the wanted number of octets
            want = item["fit_total"]
            vals = [n for _, n in rep.tree.walk() if n.name == "value" and n.tag == 0x04 and n.children is None]
            if vals and rep.label.get("varbinds"):
                v = vals[-1]
                for _ in range(6):
                    diff = want - len(rep.clone().finalize())
                    if diff == 0:
                        sim.count("probe.exact-size-reply")
                        break
                    v.content = (v.content + b"\x5a" * diff) if diff > 0 else v.content[: max(0, len(v.content) + diff)]
                for vb in reversed(rep.label["varbinds"]):
                    if vb[1][0] == "octets":
                        vb[1][1] = v.content.hex()
                        break
        data = rep.finalize()
        if item.get("cut"):
            # truncate at a TLV boundary of the final message
            offs = snmp.node_offsets(rep.tree)
            st, cs, en = offs[item["cut"]["node"] % len(offs)]
            pos = {"start": st, "content": cs, "end": en, "mid": (cs + en) // 2}[item["cut"]["where"]]
            if pos < len(data):
                data = data[:pos]
                rep.label["wf"] = False
                rep.label["why"] = "truncated"
                sim.count("fault.cut-at-tlv")
        if item.get("outer"):
            data = faults.apply_outer(data, item["outer"], rep.label)
            for op in item["outer"]:
                sim.count("fault.outer." + op["op"])
        if len(data) > faults.MAX_DGRAM and rep.label.get("wf") is True:
            # larger than the client's receive buffer at the pinned commit: the kernel may cut it
            # (or not, after a refactor that enlarges the buffer) - no prediction is made
            rep.label["wf"] = None
            rep.label["why"] = "larger-than-receive-buffer"
            sim.count("probe.reply-larger-than-receive-buffer")
        n = item.get("copies", 1)
        if n > 1:
            sim.count("fault.duplicate")
        if delay > self.latency:
            sim.count("fault.delay")
        gap = item.get("copy_gap_ns", 1000)
        for c in range(n):
            d = sim.deliver(idx, data, rep.label, delay + c * gap)
            self.dgrams[d.id] = {"s": idx, "label": rep.label, "hex": data.hex()}

    def synth_base(self, idx, serial):
        dec = self.wire_dec.get((idx, serial))
        if not dec or not dec.get("ok"):
            return None
        agent = self.agent_of(idx)
        m = dec["m"]
        answers = (idx, serial)
        if dec["version"] == 3:
            return agent.v3_reply(m, snmp.PDU_RESPONSE, dec["request_id"], 0, 0, [], answers, None, 0)
        return agent.community_reply(dec["version"], m["community"], dec["request_id"], 0, 0, [], answers)

    def custom_reply(self, idx, serial, item, base: Reply):
        """Hostile / scripted content in place of the RFC answer; keeps the
        request's ids and security so that it is otherwise matching."""
        lab = base.label
        vbs = [(ber.parse_oid_text(o), v, *rest) for o, v, *rest in item.get("varbinds", [])]
        tag = {"response": snmp.PDU_RESPONSE, "report": snmp.PDU_REPORT, "get": snmp.PDU_GET}[item.get("pdu", "response")]
        es, ei = item.get("error_status", 0), item.get("error_index", 0)
        rid = lab["request_id"]
        node_opts = item.get("opts")
        pdu = snmp.pdu_node(tag, rid, es, ei, vbs, node_opts)
        rep = base.clone()
        if lab["version"] == 3:
            sp = snmp.find(rep.tree, "scoped-pdu")
            sp.children[2] = pdu
        else:
            rep.tree.children[2] = pdu
        rep.label["pdu"] = snmp.PDU_NAMES[tag]
        rep.label["error_status"] = es
        rep.label["varbinds"] = [[ber.oid_text(o), v] for o, v, *_ in vbs]
        rep.label["custom"] = True
        if item.get("unpredictable"):
            # content whose acceptance nothing is claimed about (e.g. a malformed name): no verdict
            rep.label["wf"] = None
            rep.label["why"] = "unpredictable-content"
        if tag == snmp.PDU_REPORT:
            rep.label["report"] = item.get("report_name", "custom")
        return rep

    # ---- sessions
    def make_user(self, u):
        g = self.g
        if u is None:
            return None
        KT = g.user.KeyType
        kt = {"password": KT.Password, "master": KT.Master, "localized": KT.Localized}
        auth = priv = None
        # share_objects: the application builds each distinct key / user once and hands the same Python
        # object to every session that uses it (credentials are values: sharing must not matter)
        share = self.shared if self.plan.get("share_objects") else None

        def key(cls, spec):
            k = (cls.__name__, spec["key"], spec["type"])
            if share is not None and k in share:
                self.sim.count("probe.shared-key-object")
                return share[k]
            obj = cls(bytes.fromhex(spec["key"]), key_type=kt[spec["type"]])
            if share is not None:
                share[k] = obj
            return obj

        if u.get("auth"):
            auth = key({1: g.user.Md5Key, 2: g.user.Sha1Key}[u["auth"]["alg"]], u["auth"])
        if u.get("priv"):
            priv = key({1: g.user.DesKey, 2: g.user.Aes128Key}[u["priv"]["alg"]], u["priv"])
        uk = ("user", u["name"], id(auth), id(priv))
        if share is not None and uk in share:
            self.sim.count("probe.shared-user-object")
            return share[uk]
        user = g.user.User(u["name"], auth_key=auth, priv_key=priv)
        if share is not None:
            share[uk] = user
        return user

    def make_session(self, idx, cfg):
        g = self.g
        cls = g.aclient.SnmpSession if cfg.get("flavour", "sync") == "async" else g.sclient.SnmpSession  # "threads" = sync client
        kw = {}
        ver = {"v1": g.SnmpVersion.v1, "v2c": g.SnmpVersion.v2c, "v3": g.SnmpVersion.v3}[cfg.get("version", "v2c")]
        if not cfg.get("version_auto"):
            kw["version"] = ver  # otherwise left to the constructor: v3 iff a user is given, else v2c
            if cfg.get("version_int"):
                kw["version"] = int(ver)  # SnmpVersion is an IntEnum: the plain number means the same
        for k in ("tos", "send_buffer", "recv_buffer"):
            if k in cfg:
                kw[k] = cfg[k]
        if "community" in cfg:
            kw["community"] = cfg["community"]
        if cfg.get("user") is not None:
            kw["user"] = self.make_user(cfg["user"])
        elif cfg.get("spurious_user") and not cfg.get("version_auto"):
            kw["user"] = g.user.User("ignored", auth_key=g.user.Sha1Key(b"ignored-secret"))
        if cfg.get("engine_id"):
            kw["engine_id"] = bytes.fromhex(cfg["engine_id"])
        elif cfg.get("engine_id_empty"):
            kw["engine_id"] = b""  # an explicit but empty engine id means "discover", like None
        kw["timeout"] = cfg.get("timeout_ns", 2_000_000_000) / 1e9
        if "max_repetitions" in cfg:
            kw["max_repetitions"] = cfg["max_repetitions"]
        if "allow_bulk" in cfg:
            kw["allow_bulk"] = cfg["allow_bulk"]
        if cfg.get("limit_rps") is not None:
            if cfg.get("policer_arg"):
                kw["policer"] = g.policer.RPSPolicer(float(cfg["limit_rps"]))
                if cfg.get("policer_arg") == "both":
                    kw["limit_rps"] = 1_000_000  # must be overridden by policer=
            else:
                kw["limit_rps"] = cfg["limit_rps"]
        s = cls("127.0.0.1", port=10161 + idx, **kw)
        self.sim.add_endpoint(idx, s._fd)
        return s

    # ---- op execution (sync)
    def record(self, s, i, op, fn):
        sim = self.sim
        t0 = sim.now
        sim.log("call", s, i, op.get("op"), t0)
        self.cur_op[s] = [op.get("id", i), 0]
        res = {"s": s, "i": i, "op": op, "t0": t0, "tx0": self.sim.by_idx[s].tx_serial if s in self.sim.by_idx else 0}
        try:
            res["ok"] = fn()
        except BaseException as e:  # noqa: BLE001 - PanicException is a BaseException
            if isinstance(e, (HarnessError,)):
                raise
            res["exc"] = exc_outcome(e)
        res["t1"] = sim.now
        res["tx1"] = self.sim.by_idx[s].tx_serial if s in self.sim.by_idx else 0
        self.finish(res)
        return res

    def finish(self, res):
        sim = self.sim
        sim.log("ret", res["s"], res["i"], res.get("ok") if "ok" in res else res["exc"], res["t1"])
        self.results.append(res)
        if sim.harness_error is not None:
            e = sim.harness_error
            sim.harness_error = None
            if isinstance(e, SimStepLimit):
                res["step_limit"] = True
            else:
                raise HarnessError("transport failure: %r" % (e,)) from e

    def walk_sync(self, sess, op):
        m = op["method"]
        if m == "getnext":
            it = sess.getnext(op["oid"])
        elif m == "getbulk":
            it = sess.getbulk(op["oid"], op.get("max_rep")) if op.get("max_rep") is not None else sess.getbulk(op["oid"])
        else:
            it = sess.fetch(op["oid"])
        items = []
        limit = op.get("limit", 200)
        end = "limit"
        retries = op.get("retry", 0)  # keep using the same iterator after a (timeout) error
        errors = []
        partner = None
        if op.get("partner"):
            # a second iterator on the same session, advanced by one item after every item of this one
            # (think zip(walk_a, walk_b)): each walk must come out as if it ran alone
            pm = op["partner"]
            partner = iter(sess.getbulk(pm["oid"], pm["max_rep"]) if pm["method"] == "getbulk" else (sess.getnext(pm["oid"]) if pm["method"] == "getnext" else sess.fetch(pm["oid"])))
            self.sim.count("probe.interleaved-iterators")
        while True:
            try:
                for k, v in it:
                    items.append([k, norm(v)])
                    if len(items) >= limit:
                        break
                    if partner is not None:
                        try:
                            next(partner)
                        except HarnessError:
                            raise
                        except BaseException:  # noqa: BLE001
                            partner = None
                else:
                    end = "stop"
            except BaseException as e:  # noqa: BLE001
                if isinstance(e, HarnessError):
                    raise
                end = exc_outcome(e)
                if retries > 0 and end["exc"] == "TimeoutError":
                    retries -= 1
                    errors.append(len(items))
                    end = "limit"
                    continue
            break
        out = {"items": items, "end": end}
        if errors:
            out["retried_at"] = errors
        return out

    def real_pause(self, op):
        """Wall-clock perturbation: real time passes while no simulated time does. Code that keeps to
        the seams cannot tell; code that reads a clock of its own (std::time, time.monotonic) can."""
        if op.get("real_s"):
            import time as _t

            _t.sleep(op["real_s"])
            self.sim.count("fault.wall-clock-pause")

    def do_sync(self, i, op):
        kind = op["op"]
        sim = self.sim
        if kind == "idle":
            sim.log("idle", sim.now, op["ns"])
            self.real_pause(op)
            sim.run_until(sim.now + op["ns"])
            return
        if kind == "agent":
            self.env_action(op)
            return
        s = op.get("s", 0)
        sess = self.sessions[s]
        if sess is None:
            return
        if kind == "get":
            self.record(s, i, op, lambda: norm(sess.get(op["oid"])))
        elif kind == "get_many":
            self.record(s, i, op, lambda: norm(sess.get_many(_oids_arg(op))))
        elif kind == "walk":
            self.record(s, i, op, lambda: self.walk_sync(sess, op))
        elif kind == "refresh":
            if op.get("via") == "enter":
                self.record(s, i, op, lambda: norm(sess.__enter__() is sess))
            else:
                self.record(s, i, op, lambda: norm(sess.refresh()))
        elif kind == "engine_id":
            self.record(s, i, op, lambda: norm(sess.get_engine_id()))
        else:
            raise HarnessError("unknown op %r" % kind)

    def env_action(self, op):
        do = op["do"]
        self.sim.log("env", self.sim.now, do)
        self.sim.count("env." + do)
        agent = self.agents[op.get("agent", 0) % len(self.agents)]
        if do == "restart":
            agent.restart(op.get("boots"), op.get("time0", 0))
        elif do == "jump":
            agent.jump_time(op["delta_s"])
        elif do == "set_boots":
            agent.boots = op["boots"]
        else:
            raise HarnessError("unknown env action %r" % do)

    # ---- op execution (async)
    async def walk_async(self, sess, op):
        m = op["method"]
        if m == "getnext":
            it = sess.getnext(op["oid"])
        elif m == "getbulk":
            it = sess.getbulk(op["oid"], op.get("max_rep")) if op.get("max_rep") is not None else sess.getbulk(op["oid"])
        else:
            it = sess.fetch(op["oid"])
        items = []
        limit = op.get("limit", 200)
        end = "limit"
        retries = op.get("retry", 0)
        errors = []
        partner = None
        if op.get("partner"):
            pm = op["partner"]
            partner = (sess.getbulk(pm["oid"], pm["max_rep"]) if pm["method"] == "getbulk" else (sess.getnext(pm["oid"]) if pm["method"] == "getnext" else sess.fetch(pm["oid"]))).__aiter__()
            self.sim.count("probe.interleaved-iterators")
        while True:
            try:
                async for k, v in it:
                    items.append([k, norm(v)])
                    if len(items) >= limit:
                        break
                    if partner is not None:
                        try:
                            await partner.__anext__()
                        except (HarnessError, asyncio.CancelledError):
                            raise
                        except BaseException:  # noqa: BLE001
                            partner = None
                else:
                    end = "stop"
            except BaseException as e:  # noqa: BLE001
                if isinstance(e, (HarnessError, asyncio.CancelledError)):
                    raise
                end = exc_outcome(e)
                if retries > 0 and end["exc"] == "TimeoutError":
                    retries -= 1
                    errors.append(len(items))
                    end = "limit"
                    continue
            break
        out = {"items": items, "end": end}
        if errors:
            out["retried_at"] = errors
        return out

    async def record_async(self, s, i, op, coro_fn):
        sim = self.sim
        t0 = sim.now
        sim.log("call", s, i, op.get("op"), t0)
        self.cur_op[s] = [op.get("id", i), 0]
        res = {"s": s, "i": i, "op": op, "t0": t0, "tx0": sim.by_idx[s].tx_serial}
        try:
            if op.get("cancel_ns"):
                # the caller puts its own, shorter deadline around the call (asyncio.wait_for): the
                # pending call is cancelled from outside and the session is used again afterwards
                sim.count("fault.caller-cancel-armed")
                try:
                    res["ok"] = await asyncio.wait_for(coro_fn(), op["cancel_ns"] / 1e9)
                except TimeoutError:
                    if sim.now - t0 >= op["cancel_ns"] - 1000 and op["cancel_ns"] < self.sess_cfg[s].get("timeout_ns", 2_000_000_000):
                        res["cancelled"] = True
                        sim.count("fault.caller-cancelled")
                        res["exc"] = {"exc": "CallerCancelled", "mro": ["CallerCancelled"], "msg": "", "documented": True}
                    else:
                        raise
            else:
                res["ok"] = await coro_fn()
        except BaseException as e:  # noqa: BLE001
            if isinstance(e, (HarnessError, asyncio.CancelledError)):
                raise
            res["exc"] = exc_outcome(e)
        res["t1"] = sim.now
        res["tx1"] = sim.by_idx[s].tx_serial
        self.finish(res)
        return res

    async def session_task(self, s, ops):
        sess = self.sessions[s]
        if sess is None:
            return
        for i, op in ops:
            kind = op["op"]
            if kind == "idle":
                self.sim.log("idle", self.sim.now, op["ns"])
                self.real_pause(op)
                await asyncio.sleep(op["ns"] / 1e9)
            elif kind == "get":

                async def f(op=op):
                    return norm(await sess.get(op["oid"]))

                await self.record_async(s, i, op, f)
            elif kind == "get_many":

                async def f(op=op):
                    return norm(await sess.get_many(_oids_arg(op)))

                await self.record_async(s, i, op, f)
            elif kind == "walk":

                async def f(op=op):
                    return await self.walk_async(sess, op)

                await self.record_async(s, i, op, f)
            elif kind == "refresh":

                async def f(op=op):
                    if op.get("via") == "enter":
                        return norm((await sess.__aenter__()) is sess)
                    return norm(await sess.refresh())

                await self.record_async(s, i, op, f)
            elif kind == "engine_id":

                async def f():
                    return norm(sess.get_engine_id())

                await self.record_async(s, i, op, f)
            else:
                raise HarnessError("unknown op %r" % kind)

    async def env_task(self, ops):
        for i, op in ops:
            if op["op"] == "idle":
                await asyncio.sleep(op["ns"] / 1e9)
            else:
                self.env_action(op)

    # ---- main entry
    def execute(self):
        g = self.g
        plan = self.plan
        fast = g.fast
        fast._verif_install(self.sim)
        fast._verif_reset(plan.get("prng_seed", 1) & 0xFFFFFFFFFFFFFFFF, plan.get("poison", 0xA5))
        if plan.get("rx_tail") == "keep" and hasattr(fast, "_verif_set_rx_tail"):
            fast._verif_set_rx_tail(True)  # like a real kernel: stale octets stay beyond the datagram
        if plan.get("forced_random"):
            fast._verif_force_random([x & 0xFFFFFFFFFFFFFFFF for x in plan["forced_random"]])
        g.policer.perf_counter_ns = self.sim.perf_counter_ns
        g.policer.sleep = self.sim.sleep
        flavour = plan.get("flavour", "sync")
        try:
            for idx, cfg in enumerate(self.sess_cfg):
                cfg = dict(cfg)
                cfg.setdefault("flavour", flavour)
                try:
                    self.sessions.append(self.make_session(idx, cfg))
                except BaseException as e:  # noqa: BLE001 - a refused (valid) configuration is an outcome, not a harness error
                    if isinstance(e, HarnessError):
                        raise
                    self.sessions.append(None)
                    res = {"s": idx, "i": -1 - idx, "op": {"op": "session"}, "t0": 0, "t1": 0, "tx0": 0, "tx1": 0, "exc": exc_outcome(e)}
                    self.sim.log("session-failed", idx, res["exc"]["exc"])
                    self.session_failures.append(res)
            ops = list(enumerate(plan.get("ops", [])))
            if flavour == "sync":
                for i, op in ops:
                    self.do_sync(i, op)
            elif flavour == "threads":
                self.run_threads(ops)
            else:
                self.run_async(ops)
        finally:
            fast._verif_install(None)
            self.sessions.clear()
        return self

    def run_threads(self, ops):
        """Sync sessions, one caller thread per session, under the seeded scheduler."""
        per = {}
        for i, op in ops:
            if op["op"] == "agent":
                continue
            per.setdefault(op.get("s", 0), []).append((i, op))
        sched = ThreadSched(self.sim, random.Random(self.plan.get("sched_seed", 0)), self.plan.get("yield_p", 0.3))
        self.sim.sched = sched

        def make(s, lst):
            def fn():
                for i, op in lst:
                    if op["op"] == "idle":
                        self.sim.log("idle", self.sim.now, op["ns"])
                        self.real_pause(op)
                        sched.park(lambda: False, self.sim.now + op["ns"])
                    else:
                        self.do_sync(i, op)
                    sched.maybe_yield()

            return fn

        try:
            sched.run([make(s, lst) for s, lst in sorted(per.items())])
        finally:
            self.sim.sched = None
        self.sim.count("sched.thread-switches", sched.switches)

    def run_async(self, ops):
        ops = list(ops)
        cut = self.plan.get("second_loop_at")
        if cut and 0 < cut < len(ops):
            # the application runs two event loops one after the other (asyncio.run twice) and keeps
            # its sessions: nothing of a session may be tied to the loop of its earlier calls
            self.sim.count("probe.second-event-loop")
            keep = []
            try:
                # half of the time the first loop is still open while the second one runs
                self._run_async_phase(ops[:cut], keep if self.plan.get("ready_order_seed", 0) % 2 else None)
                self._run_async_phase(ops[cut:])
            finally:
                for lp in keep:
                    try:
                        lp.close()
                    except Exception:  # noqa: BLE001
                        pass
        else:
            self._run_async_phase(ops)

    def _run_async_phase(self, ops, keep_open=None):
        order_rng = random.Random(self.plan.get("ready_order_seed", 0))
        loop = SimLoop(self.sim, order_rng)
        if keep_open is not None:
            keep_open.append(loop)
        try:
            per = {}
            env = []
            for i, op in ops:
                if op["op"] == "agent" or (op["op"] == "idle" and "s" not in op):
                    env.append((i, op))
                else:
                    per.setdefault(op.get("s", 0), []).append((i, op))

            async def main():
                tasks = [asyncio.ensure_future(self.session_task(s, o)) for s, o in sorted(per.items())]
                if env:
                    tasks.append(asyncio.ensure_future(self.env_task(env)))
                await asyncio.gather(*tasks)

            loop.run_until_complete(main())
        finally:
            if keep_open is None:
                try:
                    loop.close()
                except Exception:  # noqa: BLE001
                    pass

    # ---- views used by oracles
    def exchanges(self, res):
        """The exchanges of one op: [{'serial', 'key', 't', 'hex', 'send_err', 'rx': [dgram ids consumed],
        'rx_t', 'none'}], one per datagram the op put on the wire. Built for all ops in one pass."""
        idx = getattr(self, "_ex_index", None)
        if idx is None or self._ex_len != len(self.sim.hist):
            idx = {}
            cur_op = {}  # session -> (i, list)
            cur_ex = {}  # session -> current exchange dict
            for ev in self.sim.hist:
                k = ev[0]
                if k == "call":
                    lst = idx.setdefault((ev[1], ev[2]), [])
                    cur_op[ev[1]] = lst
                    cur_ex[ev[1]] = None
                elif k == "ret":
                    cur_op[ev[1]] = None
                    cur_ex[ev[1]] = None
                elif k == "tx":
                    s = ev[1]
                    lst = cur_op.get(s)
                    if lst is not None:
                        ex = {"serial": ev[2], "key": self.key_of.get((s, ev[2])), "t": ev[3], "hex": ev[4], "send_err": ev[5], "rx": [], "rx_t": [], "none": False}
                        lst.append(ex)
                        cur_ex[s] = ex
                elif k == "rx":
                    ex = cur_ex.get(ev[1])
                    if ex is not None:
                        ex["rx"].append(ev[3])
                        ex["rx_t"].append(ev[2])
                elif k == "rx-none":
                    ex = cur_ex.get(ev[1])
                    if ex is not None:
                        ex["none"] = True
            self._ex_index = idx
            self._ex_len = len(self.sim.hist)
        return idx.get((res["s"], res["i"]), [])


def execute(plan):
    return Run(copy.deepcopy(plan)).execute()
