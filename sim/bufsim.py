"""Driver of the Rust buffer harness (rs/src/bufsim.rs): shadow-manifest build
of the repository's sources as an rlib, native seeded runs and Miri runs."""

from __future__ import annotations

import concurrent.futures as cf
import json
import os
import shutil
import subprocess
import time

from . import build as _build

ROOT = _build.ROOT
BUILD = _build.BUILD


def _dirs():
    import hashlib

    repo = os.path.realpath(_build.repo_dir())
    tag = "" if repo == "/repo" else "-" + hashlib.sha256(repo.encode()).hexdigest()[:10]
    return os.path.join(BUILD, "bufsim" + tag), os.path.join(BUILD, "target-bufsim" + tag), os.path.join(BUILD, "target-miri" + tag)


def _env(target):
    env = dict(os.environ)
    env["CARGO_NET_OFFLINE"] = "true"
    env.pop("RUSTFLAGS", None)
    env["CARGO_TARGET_DIR"] = target
    env["RUST_BACKTRACE"] = "0"
    return env


def prepare():
    d, tn, tm = _dirs()
    os.makedirs(d, exist_ok=True)
    src = open(os.path.join(ROOT, "rs", "Cargo.toml.in")).read().replace("@REPO@", os.path.realpath(_build.repo_dir())).replace("@VERIF@", ROOT)
    p = os.path.join(d, "Cargo.toml")
    if not os.path.exists(p) or open(p).read() != src:
        open(p, "w").write(src)
    shutil.copy2(os.path.join(_build.repo_dir(), "Cargo.lock"), os.path.join(d, "Cargo.lock"))
    return d, tn, tm


def build():
    d, tn, tm = prepare()
    p = subprocess.run(["cargo", "build", "--release", "--offline"], cwd=d, env=_env(tn), stdout=subprocess.PIPE, stderr=subprocess.STDOUT, text=True)
    if p.returncode != 0:
        raise RuntimeError("bufsim build failed:\n" + p.stdout[-4000:])
    return os.path.join(tn, "release", "bufsim")


def _run(cmd, cwd=None, env=None, timeout=3600):
    p = subprocess.run(cmd, cwd=cwd, env=env, stdout=subprocess.PIPE, stderr=subprocess.PIPE, text=True, timeout=timeout)
    return p.returncode, p.stdout, p.stderr


def native(exe, first, count, nops, jobs):
    """Returns (ok_lines, violations)."""
    per = max(1, count // jobs)
    tasks = [(first + i * per, per) for i in range(jobs)]
    oks, viols = [], []
    with cf.ThreadPoolExecutor(jobs) as ex:
        futs = [ex.submit(_run, [exe, "run", str(a), str(n), str(nops)]) for a, n in tasks]
        for f in futs:
            rc, out, err = f.result()
            for line in out.splitlines():
                if line.startswith("VIOLATION"):
                    viols.append(line)
                elif line.startswith("OK"):
                    oks.append(line)
            if rc not in (0, 1) or (rc == 0 and not out.startswith("OK")):
                viols.append("VIOLATION seed=? step=? harness process ended with code %s: %s" % (rc, (err or out)[-300:]))
    return oks, viols


def native_pool(exe, seed, threads, rounds):
    rc, out, err = _run([exe, "pool", str(seed), str(threads), str(rounds)])
    return rc == 0 and out.startswith("OK"), (out + err)[-400:]


def miri(jobs, seeds_per_job, first_seed, nops, pool_seeds=4):
    """Miri runs: `jobs` interpreter processes, each executing `seeds_per_job`
    sequences, plus the pool scenario under several scheduler seeds."""
    d, tn, tm = prepare()
    env = _env(tm)
    env["MIRIFLAGS"] = "-Zmiri-disable-isolation"
    # compile once
    rc, out, err = _run(["cargo", "+nightly", "miri", "run", "--offline", "--", "one", "0", "1"], cwd=d, env=env)
    if rc != 0:
        return {"ran": False, "error": (err or out)[-1500:]}, ["VIOLATION seed=0 step=0 miri: %s" % _last_error(err)] if "Undefined Behavior" in err else []
    res = {"ran": True, "sequences": 0, "pool_runs": 0}
    viols = []
    with cf.ThreadPoolExecutor(jobs) as ex:
        futs = {}
        for j in range(jobs):
            a = first_seed + j * seeds_per_job
            futs[ex.submit(_run, ["cargo", "+nightly", "miri", "run", "--offline", "--", "run", str(a), str(seeds_per_job), str(nops)], d, env)] = a
        penv = dict(env)
        penv["MIRIFLAGS"] = "-Zmiri-disable-isolation -Zmiri-many-seeds=0..%d -Zmiri-preemption-rate=0.1" % pool_seeds
        pf = ex.submit(_run, ["cargo", "+nightly", "miri", "run", "--offline", "--", "pool", str(first_seed), "3", "3"], d, penv)
        for f, a in futs.items():
            rc, out, err = f.result()
            if rc == 0 and "OK first" in out:
                res["sequences"] += seeds_per_job
            else:
                line = next((l for l in out.splitlines() if l.startswith("VIOLATION")), None)
                viols.append(line or "VIOLATION seed=%d..%d step=? miri: %s" % (a, a + seeds_per_job - 1, _last_error(err)))
        rc, out, err = pf.result()
        if rc == 0:
            res["pool_runs"] = out.count("OK pool")
        else:
            line = next((l for l in out.splitlines() if l.startswith("VIOLATION")), None)
            viols.append((line + " (miri pool scenario)") if line else "VIOLATION seed=%d step=? miri pool scenario: %s" % (first_seed, _last_error(err)))
    return res, viols


def _last_error(err):
    lines = [l for l in err.splitlines() if l.startswith("error") or "Undefined Behavior" in l or "panicked" in l]
    return (lines[0] if lines else err[-300:]).strip()[:300]


def check(tier, seed):
    """Run the whole buffer engine for C17. Returns (evidence dict, violations)."""
    t0 = time.time()
    jobs = int(os.environ.get("VERIF_JOBS", "16"))
    exe = build()
    count = 480_000 if tier == "quick" else 16_000_000
    nops = 60 if tier == "quick" else 80
    first = (seed * 1_000_003) % (2**40)
    oks, viols = native(exe, first, count, nops, jobs)
    pool_ok, pool_out = native_pool(exe, seed, 8, 20000 if tier == "quick" else 200000)
    if not pool_ok:
        viols.append("VIOLATION seed=%d step=? native pool scenario: %s" % (seed, pool_out))
    mj = min(jobs, 12)
    mres, mviols = miri(mj, 3 if tier == "quick" else 40, first, 40)
    viols += mviols
    ev = {
        "bufsim": {
            "native_sequences": count if not viols else None,
            "ops_per_sequence": nops,
            "first_seed": first,
            "native_summary_sample": oks[:2],
            "native_pool_scenario": "8 threads x %d rounds: %s" % (20000 if tier == "quick" else 200000, "ok" if pool_ok else "FAILED"),
            "miri": mres,
            "wall_s": round(time.time() - t0, 1),
            "real": "Buffer, BufferPool, BufferHandle from /repo/src/buf (guard off: fresh buffers are really uninitialised)",
            "model": "Vec<u8> mirror of the stack-like buffer",
        }
    }
    return ev, viols


def write_replay(line, tier):
    import hashlib
    import re

    m = re.search(r"seed=(\d+)", line)
    body = {"property": "C17", "engine": "bufsim", "seed": int(m.group(1)) if m else 0, "nops": 60 if tier == "quick" else 80, "violation": {"oracle": "C17.bufsim", "detail": line}}
    if "miri" in line:
        body["miri"] = True
        body["nops"] = 40
    os.makedirs(os.path.join(ROOT, "replays"), exist_ok=True)
    path = os.path.join(ROOT, "replays", "C17-bufsim-%s.json" % hashlib.sha256(line.encode()).hexdigest()[:10])
    json.dump(body, open(path, "w"), indent=1)
    return path


def replay(body):
    exe = build()
    rc, out, err = _run([exe, "one", str(body["seed"]), str(body["nops"])])
    if rc != 0 or body.get("miri"):
        if rc == 0:
            d, tn, tm = prepare()
            env = _env(tm)
            env["MIRIFLAGS"] = "-Zmiri-disable-isolation"
            rc, out, err = _run(["cargo", "+nightly", "miri", "run", "--offline", "--", "one", str(body["seed"]), str(body["nops"])], cwd=d, env=env)
    return {"reproduced": rc != 0, "how": "bufsim", "detail": (out + err)[-600:]}
