"""Fault injection on replies: semantic rewrites (always well-formed) and
corruptions (structural, before signing/encryption; or on the final bytes).

Every function updates the reply's label so that the acceptance model can
compute its verdict *from what was done to the datagram*, never by decoding
it a second time.
"""

from __future__ import annotations

from . import ber, snmp

MAX_DGRAM = 4080


def _set_int(tree, name, v):
    n = snmp.find(tree, name)
    if n is None:
        return False
    n.content = ber.int_content(v)
    return True


def _set_bytes(tree, name, b):
    n = snmp.find(tree, name)
    if n is None:
        return False
    n.content = b
    return True


def resolve_id(spec, ctx):
    """ctx: dict(cur=request id on the wire, prev=[earlier ids], cur_msg, prev_msg)."""
    if isinstance(spec, int):
        return spec
    if spec == "prev":
        return ctx["prev"][-1] if ctx["prev"] else (ctx["cur"] ^ 1)
    if spec == "zero":
        return 0
    if spec == "plus1":
        return (ctx["cur"] + 1) & 0x7FFFFFFF
    if spec == "xor1":
        return ctx["cur"] ^ 1
    if spec == "neg":
        return -ctx["cur"] - 1
    if spec == "same":
        return ctx["cur"]
    if spec == "bit31":
        return ctx["cur"] - 2**31  # same low 31 bits
    if spec == "bit32":
        return ctx["cur"] + 2**32
    if spec == "hi":
        return ctx["cur"] + 2**40
    if isinstance(spec, str) and spec[:1] in "mp" and spec[1:].isdigit():
        # m256 / p65536 ...: the outstanding id minus / plus a power of 256 (equal in some of the low octets only)
        return ctx["cur"] - int(spec[1:]) if spec[0] == "m" else ctx["cur"] + int(spec[1:])
    raise ValueError(spec)


def apply_rewrites(reply, rewrites, ctx):
    """rewrites: dict field -> spec. All results stay well-formed."""
    tree, label, sec = reply.tree, reply.label, reply.sec
    for field, spec in rewrites.items():
        if field == "request-id":
            v = resolve_id(spec, ctx)
            if _set_int(tree, "request-id", v):
                label["request_id"] = v
        elif field == "community":
            b = bytes.fromhex(spec)
            if _set_bytes(tree, "community", b):
                label["community"] = b.hex()
        elif field == "version":
            # a well-formed message of another version
            if isinstance(spec, str) and spec.startswith("alias"):
                # the genuine version plus a multiple of 256 / 2^32: equal only after truncation
                spec = label["version"] + {"alias256": 256, "alias-256": -256, "alias2^32": 2**32, "alias65536": 65536}[spec]
                _set_int(tree, "version", spec)
                label["version"] = spec
            elif label["version"] in (0, 1):
                _set_int(tree, "version", spec)
                label["version"] = spec
        elif field == "msg-id":
            v = resolve_id(spec, {"cur": ctx.get("cur_msg", 0), "prev": ctx.get("prev_msg", [])})
            if _set_int(tree, "msg-id", v):
                label["msg_id"] = v
        elif field == "user":
            b = bytes.fromhex(spec)
            if _set_bytes(tree, "usm-user", b):
                label["user"] = b.hex()
        elif field == "engine-id":
            n = snmp.find(tree, "usm-engine-id")
            if isinstance(spec, str) and spec.startswith("ext:") and n is not None:
                spec = (n.content + bytes.fromhex(spec[4:])).hex()  # the genuine engine id plus extra octets
            elif spec == "cut" and n is not None:
                spec = n.content[:-1].hex()  # ... or minus its last octet
            b = bytes.fromhex(spec)
            if _set_bytes(tree, "usm-engine-id", b):
                label["engine_id"] = b.hex()
        elif field == "boots":
            if _set_int(tree, "usm-boots", spec):
                label["boots"] = spec
                if sec is not None:
                    sec["boots"] = spec
        elif field == "time":
            if _set_int(tree, "usm-time", spec):
                label["time"] = spec
                if sec is not None:
                    sec["time"] = spec
        elif field == "mac":
            # valid | zero | flip | random | absent | short
            if sec is not None and sec.get("auth_alg"):
                if isinstance(spec, dict):
                    sec.update(spec)
                    spec = spec["mac"]
                else:
                    sec["mac"] = spec
                label["mac"] = spec
        elif field == "noauth":
            # strip authentication (and with it privacy): flags cleared, fields empty
            if label.get("version") == 3:
                if sec is not None:
                    sec["sign"] = False
                    sec["encrypt"] = False
                _set_bytes(tree, "usm-auth", b"")
                _set_bytes(tree, "usm-priv", b"")
                f = snmp.find(tree, "flags")
                f.content = bytes([f.content[0] & ~3 & 0xFF])
                label["flags"] = f.content[0]
                label["mac"] = "none"
                label["encrypted"] = False
        elif field == "cleartext":
            # keep authentication, send the scoped PDU in clear
            if label.get("version") == 3 and sec is not None and sec.get("priv_alg"):
                sec["encrypt"] = False
                _set_bytes(tree, "usm-priv", b"")
                f = snmp.find(tree, "flags")
                f.content = bytes([f.content[0] & ~2 & 0xFF])
                label["flags"] = f.content[0]
                label["encrypted"] = False
        elif field == "flags":
            # lie about the flags only (content untouched)
            f = snmp.find(tree, "flags")
            if f is not None:
                f.content = bytes([spec])
                label["flags"] = spec
                label["flags_lie"] = True
        elif field == "salt":
            b = bytes.fromhex(spec)
            if _set_bytes(tree, "usm-priv", b):
                label["salt_len"] = len(b)
        elif field == "cipher-trim":
            # drop the last n octets of the ciphertext (before signing): the encrypted payload
            # is no longer a whole scoped PDU / a whole number of cipher blocks
            if sec is not None and sec.get("priv_alg") and sec.get("encrypt", True):
                sec["cipher_trim"] = spec
                label["cipher_trimmed"] = spec
                label["wf"] = None
                label["why"] = "cipher-trimmed"
        elif field == "pdu-type":
            p = snmp.find(tree, "pdu")
            p.tag = spec
            label["pdu"] = snmp.PDU_NAMES.get(spec, "unknown")
            if spec in (snmp.PDU_GET, snmp.PDU_GETNEXT, snmp.PDU_GETBULK):
                # a well-formed request binds every name to NULL (and has no error status)
                for _, n in tree.walk():
                    if n.name == "varbind" and n.children and len(n.children) == 2:
                        n.children[1] = ber.prim(0x05, b"", name="value")
                for nm in ("error-status", "error-index"):
                    _set_int(tree, nm, 0 if spec != snmp.PDU_GETBULK or nm == "error-status" else 10)
                label["varbinds"] = [[o, ["null"]] for o, _ in label.get("varbinds", [])]
        elif field == "ctx-name":
            # contextName of the scoped PDU: any OCTET STRING is legal, the client does not use it
            if _set_bytes(tree, "ctx-name", bytes.fromhex(spec)):
                label["ctx_name"] = spec
        elif field == "max-size":
            # msgMaxSize announced by the sender: any value in 484..2^31-1 is legal (RFC 3412)
            if _set_int(tree, "max-size", spec):
                label["max_size"] = spec
        elif field == "widths":
            # legal but non-minimal: long-form lengths (k length octets) on the named elements.
            # The message stays well-formed BER: nothing about its acceptance changes.
            for nm, w in spec.items():
                if nm == "encrypted":
                    if sec is not None:
                        sec["enc_width"] = w
                    continue
                for _, n in tree.walk():
                    if n.name == nm and n.raw is None:
                        n.width = w
            label["widths"] = dict(spec)
        elif field == "error-status":
            if _set_int(tree, "error-status", spec):
                label["error_status"] = spec
        else:
            raise ValueError("unknown rewrite field %r" % field)


# ---------------------------------------------------------------- structural corruption
def apply_inner(reply, ops):
    """Structural mutations on the plaintext tree (re-signed / re-encrypted afterwards).

    ops: list of dicts; paths index into the tree by child position.
    """
    tree, label = reply.tree, reply.label
    for op in ops:
        kind = op["op"]
        nodes = [(p, n) for p, n in tree.walk()]
        if kind == "len_past_parent":
            # declare a length that runs past the enclosing element by `delta` octets
            offs = snmp.node_offsets(tree)
            idx = 1 + op["node"] % (len(nodes) - 1) if len(nodes) > 1 else 0
            path, node = nodes[idx]
            if node.raw is not None:
                continue
            parent_end = offs[0][2]
            if path:
                pidx = next(i for i, (p, _) in enumerate(nodes) if p == path[:-1])
                parent_end = offs[pidx][2]
            remaining = parent_end - offs[idx][1]
            node.len_override = remaining + max(1, op["delta"])
            label["wf"] = False
            label["why"] = "length-past-parent"
            label["tampered"] = node.name
            continue
        if kind == "int_pad":
            # non-minimal INTEGER: k redundant leading octets (00 for >= 0, ff for < 0); same value
            named = [n for _, n in nodes if n.name == op["name"] and n.children is None and n.tag == 0x02 and n.content]
            if not named:
                continue
            n = named[0]
            fill = b"\xff" if n.content[0] & 0x80 else b"\x00"
            n.content = fill * op["k"] + n.content
            label["wf"] = None
            label["why"] = "int-padded"
            label["tampered"] = op["name"]
            continue
        if kind == "insert_after":
            named = [(p_, n) for p_, n in nodes if n.name == op["name"] and p_]
            if not named:
                continue
            path, node = named[0]
            junk = ber.Node(0, content=b"")
            junk.raw = bytes.fromhex(op["hex"])
            tree.at(path[:-1]).children.insert(path[-1] + 1, junk)
            label["wf"] = None
            label["why"] = "junk-after-" + op["name"]
            continue
        if kind == "tag_alias":
            # the element's tag written in high-tag-number form with the number + 256 * k: equal to the
            # genuine tag only after truncation to eight bits - not the element it pretends to be
            named = [n for _, n in nodes if n.name == op["name"] and n.raw is None]
            if not named:
                continue
            node = named[0]
            t = node.tag if isinstance(node.tag, int) else node.tag[0]
            num = (t & 0x1F) + 256 * op.get("k", 1)
            digits = []
            while True:
                digits.append(num & 0x7F)
                num >>= 7
                if not num:
                    break
            body = bytes([0x80 | d for d in reversed(digits[1:])] + [digits[0]])
            node.tag = bytes([(t & 0xE0) | 0x1F]) + body
            label["wf"] = False
            label["why"] = "tag-alias"
            label["tampered"] = node.name
            body_names = ("request-id", "error-status", "error-index", "varbinds", "varbind", "name", "value")
            if (label.get("pdu") == "report" and node.name in body_names) or (reply.sec is not None and reply.sec.get("priv_alg") and reply.sec.get("encrypt", True) and node.name in body_names + ("pdu", "scoped-pdu", "ctx-engine-id", "ctx-name")):
                # the body of a Report is never parsed, and what is wrong inside a ciphertext may be
                # dropped instead of reported: no claim
                label["wf"] = None
            continue
        if kind in ("len_form", "tag_form"):
            # exotic header encodings of one element: indefinite / reserved / oversized length forms,
            # high-tag-number identifier octets. Nothing is predicted: the datagram must not crash the client.
            idx = op.get("node", 0) % len(nodes)
            path, node = nodes[idx]
            if node.raw is not None:
                continue
            body = node.body()
            tag = node.tag if isinstance(node.tag, bytes) else bytes([node.tag])
            if kind == "tag_form":
                node.tag = bytes.fromhex(op["hex"])
            else:
                forms = {
                    "indef": b"\x80",
                    "indef-eoc": b"\x80",
                    "ff": b"\xff",
                    "max32": b"\x84\xff\xff\xff\xff",
                    "max64": b"\x88" + b"\xff" * 8,
                    "nine": b"\x89\x01" + b"\x00" * 8,
                    "wide126": b"\xfe" + len(body).to_bytes(126, "big"),
                    "wide127": b"\xff" + len(body).to_bytes(127, "big"),
                    "zero-long": b"\x81\x00",
                    "top-bit": b"\x88\x80" + len(body).to_bytes(7, "big"),
                    "alias64": b"\x89\x01" + len(body).to_bytes(8, "big"),
                    "alias32": b"\x85\x01" + len(body).to_bytes(4, "big"),
                    "alias16": b"\x83\x01" + len(body).to_bytes(2, "big"),
                }
                node.raw = tag + forms[op["form"]] + body + (b"\x00\x00" if op["form"] == "indef-eoc" else b"")
            label["wf"] = None
            label["why"] = kind
            if kind == "len_form" and op["form"] in ("alias64", "alias32", "alias16"):
                # the true length plus 2^64 / 2^32 / 2^16: runs far past everything - never acceptable
                label["wf"] = False
                label["why"] = "length-past-parent"
                label["tampered"] = node.name
            continue
        if kind in ("del", "dup", "swap_tag", "len", "set_content", "trunc_content", "raw"):
            idx = op.get("node", 0) % len(nodes)
            if op.get("name"):
                named = [i for i, (_, n) in enumerate(nodes) if n.name == op["name"]]
                if not named:
                    continue
                idx = named[0]
            path, node = nodes[idx]
            if kind == "len":
                body = len(node.body())
                new = max(0, body + op["delta"])
                if new != body:
                    node.len_override = new
                    label["wf"] = False
                    label["why"] = "length-tampered"
                    label["tampered"] = node.name
                    label["delta"] = new - body
            elif kind == "swap_tag":
                node.tag = op["tag"]
                label["wf"] = None
                label["why"] = "tag-swapped"
            elif kind == "set_content":
                if node.children is None:
                    node.content = bytes.fromhex(op["hex"])
                    label["wf"] = None
                    label["why"] = "content-set"
            elif kind == "trunc_content":
                if node.children is None:
                    node.content = node.content[: op["n"]]
                    label["wf"] = None
                    label["why"] = "content-truncated"
            elif kind == "raw":
                node.raw = bytes.fromhex(op["hex"])
                label["wf"] = None
                label["why"] = "raw-replaced"
            elif path:
                parent = tree.at(path[:-1])
                if kind == "del":
                    del parent.children[path[-1]]
                else:
                    parent.children.insert(path[-1], node.clone())
                label["wf"] = None
                label["why"] = "tlv-" + kind
        else:
            raise ValueError(kind)


def apply_outer(data: bytes, ops, label):
    """Byte-level faults on the final datagram."""
    for op in ops:
        kind = op["op"]
        if kind == "truncate":
            n = op["n"] % max(1, len(data)) if len(data) else 0
            if n < len(data):
                data = data[:n]
                label["wf"] = False
                label["why"] = "truncated"
        elif kind == "pad":
            extra = bytes.fromhex(op["hex"])
            if extra:
                data = data + extra
                label["wf"] = False
                label["why"] = "padded"
        elif kind == "bitflip":
            if data:
                pos = op["pos"] % len(data)
                b = bytearray(data)
                b[pos] ^= 1 << (op["bit"] & 7)
                data = bytes(b)
                label["wf"] = None
                label["why"] = "bitflip"
        elif kind == "byteset":
            if data:
                pos = op["pos"] % len(data)
                b = bytearray(data)
                b[pos] = op["val"]
                data = bytes(b)
                label["wf"] = None
                label["why"] = "byteset"
        elif kind == "empty":
            data = b""
            label["wf"] = False
            label["why"] = "empty"
        elif kind == "random":
            data = bytes.fromhex(op["hex"])
            label["wf"] = None
            label["why"] = "random"
        elif kind == "splice":
            other = bytes.fromhex(op["hex"])
            cut = op["pos"] % max(1, len(data))
            data = data[:cut] + other
            label["wf"] = None
            label["why"] = "spliced"
        elif kind == "oversize":
            # pad so that the kernel truncates at the receive buffer size
            n = MAX_DGRAM + op.get("extra", 1) - len(data)
            if n > 0:
                # whatever the receive capacity is, the datagram now ends in octets that are
                # not part of the message (cut by the kernel or not): never acceptable
                data = data + bytes([op.get("val", 0)]) * n
                label["wf"] = False
                label["why"] = "oversize"
        else:
            raise ValueError(kind)
    return data
