"""Reference BER (X.690) encoder and *strict* decoder, written from the standard.

Independent of the code under test. The encoder has knobs (long-form lengths,
deliberate malformations); the decoder accepts only minimal definite-length
encodings and is used on everything the client emits.
"""

from __future__ import annotations


class StrictError(Exception):
    """The strict reference decoder refused the input."""


# ---------------------------------------------------------------- encoder
def enc_len(n: int, width: int = 0) -> bytes:
    """Length octets. width=0: minimal; width=k>0: long form with k octets."""
    if width == 0:
        if n < 128:
            return bytes([n])
        k = (n.bit_length() + 7) // 8
        return bytes([0x80 | k]) + n.to_bytes(k, "big")
    width = max(width, (n.bit_length() + 7) // 8)
    return bytes([0x80 | width]) + n.to_bytes(width, "big")


def tlv(tag: int, content: bytes, width: int = 0) -> bytes:
    return bytes([tag]) + enc_len(len(content), width) + content


def int_content(v: int) -> bytes:
    """Minimal two's complement contents octets (X.690 8.3)."""
    n = 1
    while True:
        try:
            return v.to_bytes(n, "big", signed=True)
        except OverflowError:
            n += 1


def uint_content(v: int, leading_zero: bool = False) -> bytes:
    """Contents of an unsigned application type, as agents send them:
    two's complement minimal (a leading zero when the top bit is set) or,
    with leading_zero=False and top bit set, the bare magnitude octets."""
    if v == 0:
        return b"\x00"
    raw = v.to_bytes((v.bit_length() + 7) // 8, "big")
    if raw[0] & 0x80 and leading_zero:
        return b"\x00" + raw
    return raw


def enc_int(v: int, width: int = 0) -> bytes:
    return tlv(0x02, int_content(v), width)


def arc_bytes(a: int) -> bytes:
    out = [a & 0x7F]
    a >>= 7
    while a:
        out.append(0x80 | (a & 0x7F))
        a >>= 7
    return bytes(reversed(out))


def oid_content(arcs) -> bytes:
    arcs = tuple(arcs)
    if len(arcs) < 2:
        raise ValueError("oid needs two arcs")
    first = arcs[0] * 40 + arcs[1]
    return arc_bytes(first) + b"".join(arc_bytes(a) for a in arcs[2:])


def enc_oid(arcs, width: int = 0) -> bytes:
    return tlv(0x06, oid_content(arcs), width)


def parse_oid_text(s: str):
    return tuple(int(x) for x in s.split("."))


def oid_text(arcs) -> str:
    return ".".join(str(a) for a in arcs)


# ---------------------------------------------------------------- tree form
class Node:
    """A TLV as a tree, so that fault injection can work at TLV boundaries.

    Either `children` (constructed) or `content` (primitive) is used.
    `width` forces a long-form length; `len_override` lies about the length;
    `raw` replaces the whole encoding.
    """

    __slots__ = ("tag", "children", "content", "width", "len_override", "raw", "name")

    def __init__(self, tag, children=None, content=None, width=0, name=""):
        self.tag = tag
        self.children = children
        self.content = content
        self.width = width
        self.len_override = None
        self.raw = None
        self.name = name

    def body(self) -> bytes:
        if self.children is not None:
            return b"".join(c.encode() for c in self.children)
        return self.content

    def encode(self) -> bytes:
        if self.raw is not None:
            return self.raw
        body = self.body()
        n = len(body) if self.len_override is None else self.len_override
        tag = self.tag if isinstance(self.tag, bytes) else bytes([self.tag])
        return tag + enc_len(n, self.width) + body

    def walk(self, path=()):
        yield path, self
        if self.children is not None:
            for i, c in enumerate(self.children):
                yield from c.walk(path + (i,))

    def at(self, path):
        n = self
        for i in path:
            n = n.children[i]
        return n

    def clone(self) -> "Node":
        n = Node(self.tag, None, self.content, self.width, self.name)
        if self.children is not None:
            n.children = [c.clone() for c in self.children]
        n.len_override = self.len_override
        n.raw = self.raw
        return n


def seq(children, width=0, name="") -> Node:
    return Node(0x30, children=list(children), width=width, name=name)


def prim(tag, content, width=0, name="") -> Node:
    return Node(tag, content=bytes(content), width=width, name=name)


# ---------------------------------------------------------------- strict decoder
def dec_header(data: bytes, off: int, end: int):
    """Return (tag, content_start, content_end). Strict."""
    if end - off < 2:
        raise StrictError("truncated header at %d" % off)
    tag = data[off]
    if tag & 0x1F == 0x1F:
        raise StrictError("high-tag-number form at %d" % off)
    b = data[off + 1]
    p = off + 2
    if b < 0x80:
        ln = b
    elif b == 0x80:
        raise StrictError("indefinite length at %d" % off)
    else:
        k = b & 0x7F
        if k > 4:
            raise StrictError("length of length %d at %d" % (k, off))
        if end - p < k:
            raise StrictError("truncated length at %d" % off)
        ln = int.from_bytes(data[p : p + k], "big")
        p += k
        if ln < 128 or (k > 1 and ln < (1 << (8 * (k - 1)))):
            raise StrictError("non-minimal length at %d" % off)
    if end - p < ln:
        raise StrictError("content runs past its parent at %d" % off)
    return tag, p, p + ln


def dec_tlv(data: bytes, off: int, end: int, expect: int | None = None):
    tag, cs, ce = dec_header(data, off, end)
    if expect is not None and tag != expect:
        raise StrictError("tag %#x where %#x expected at %d" % (tag, expect, off))
    return tag, cs, ce


def dec_int_content(c: bytes) -> int:
    if len(c) == 0:
        raise StrictError("empty INTEGER")
    if len(c) > 1:
        if (c[0] == 0 and c[1] & 0x80 == 0) or (c[0] == 0xFF and c[1] & 0x80):
            raise StrictError("non-minimal INTEGER %s" % c.hex())
    return int.from_bytes(c, "big", signed=True)


def dec_oid_content(c: bytes):
    if len(c) == 0:
        raise StrictError("empty OID")
    arcs = []
    v = 0
    start = True
    for b in c:
        if start and b == 0x80:
            raise StrictError("padded sub-identifier")
        start = False
        v = (v << 7) | (b & 0x7F)
        if not b & 0x80:
            arcs.append(v)
            v = 0
            start = True
    if not start:
        raise StrictError("unterminated sub-identifier")
    first = arcs[0]
    if first < 40:
        head = (0, first)
    elif first < 80:
        head = (1, first - 40)
    else:
        head = (2, first - 80)
    return head + tuple(arcs[1:])


class Reader:
    """Sequential strict reader over data[off:end]."""

    def __init__(self, data: bytes, off: int = 0, end: int | None = None):
        self.data = data
        self.off = off
        self.end = len(data) if end is None else end

    def eof(self) -> bool:
        return self.off >= self.end

    def done(self, what: str):
        if self.off != self.end:
            raise StrictError("trailing bytes inside %s" % what)

    def peek_tag(self) -> int:
        if self.eof():
            raise StrictError("unexpected end")
        return self.data[self.off]

    def tlv(self, expect=None):
        tag, cs, ce = dec_tlv(self.data, self.off, self.end, expect)
        self.off = ce
        return tag, self.data[cs:ce]

    def sub(self, expect) -> "Reader":
        tag, cs, ce = dec_tlv(self.data, self.off, self.end, expect)
        self.off = ce
        return Reader(self.data, cs, ce)

    def int(self) -> int:
        return dec_int_content(self.tlv(0x02)[1])

    def octets(self) -> bytes:
        return self.tlv(0x04)[1]

    def oid(self):
        return dec_oid_content(self.tlv(0x06)[1])

    def null(self):
        _, c = self.tlv(0x05)
        if c:
            raise StrictError("NULL with content")


def selftest():
    # vectors taken from X.690 and from the literal test data of the repository
    assert enc_int(0) == bytes([2, 1, 0])
    assert enc_int(127) == bytes([2, 1, 0x7F])
    assert enc_int(128) == bytes([2, 2, 0, 0x80])
    assert enc_int(256) == bytes([2, 2, 1, 0])
    assert enc_int(-128) == bytes([2, 1, 0x80])
    assert enc_int(-129) == bytes([2, 2, 0xFF, 0x7F])
    assert enc_int(-65535) == bytes([2, 3, 0xFF, 0, 1])
    assert enc_oid((1, 3, 6, 1, 2, 1, 1, 6, 0)) == bytes([6, 8, 43, 6, 1, 2, 1, 1, 6, 0])
    assert enc_oid((1, 3, 6, 999, 3)) == bytes([6, 5, 43, 6, 0x87, 0x67, 3])
    assert dec_oid_content(bytes([43, 6, 0x87, 0x67, 3])) == (1, 3, 6, 999, 3)
    assert dec_oid_content(oid_content((2, 39, 0xFFFFFFFF))) == (2, 39, 0xFFFFFFFF)
    assert enc_len(127) == b"\x7f" and enc_len(128) == b"\x81\x80" and enc_len(256) == b"\x82\x01\x00"
    for v in (0, 1, -1, 127, 128, -128, -129, 2**31 - 1, -(2**31), 2**63 - 1, -(2**63)):
        assert dec_int_content(int_content(v)) == v
    for bad in (b"\x00\x01", b"\xff\x80", b""):
        try:
            dec_int_content(bad)
            raise AssertionError(bad)
        except StrictError:
            pass
    for bad in (b"\x30\x81\x05" + b"\0" * 5, b"\x30\x80", b"\x1f\x80", b"\x30\x05\x00"):
        try:
            dec_header(bad, 0, len(bad))
            raise AssertionError(bad)
        except StrictError:
            pass
    return True
