"""Generic oracles shared by the property checks: full decoding of what the
client put on the wire, the acceptance model (DESIGN App. B) and the mapping
from a delivered reply to the API result (C07 table, walk model).
"""

from __future__ import annotations

from . import ber, snmp, usm
from .ber import StrictError


class V:
    """One violation."""

    def __init__(self, oracle, detail, **key):
        self.oracle = oracle
        self.detail = detail
        self.key = key

    def as_dict(self):
        return {"oracle": self.oracle, "detail": self.detail, "key": self.key}


# ---------------------------------------------------------------- wire view
def decode_wire(run, idx, data: bytes):
    """Strict reference decode of a datagram emitted by session idx, including
    reference decryption with the keys the *agent* derived (hashlib only)."""
    out = {"ok": False}
    try:
        m = snmp.decode_message(data, request=True)
    except StrictError as e:
        out["error"] = str(e)
        return out
    out["m"] = m
    out["version"] = m["version"]
    if m["version"] != 3:
        out["ok"] = True
        out["pdu"] = m["pdu"]
        out["request_id"] = m["pdu"]["request_id"]
        return out
    out["msg_id"] = m["msg_id"]
    u = m["usm"]
    if "scoped" in m:
        out["ok"] = True
        out["scoped"] = m["scoped"]
        out["pdu"] = m["scoped"]["pdu"]
        out["request_id"] = out["pdu"]["request_id"]
        return out
    # encrypted: decrypt with the reference keys of the named user
    agent = run.agent_of(idx)
    user = agent.users.get(u["user"])
    if user is None or not user.get("priv_alg"):
        out["error"] = "encrypted message for a user without privacy key"
        return out
    try:
        kul = user["priv_kul"]
        if u["engine_id"] != agent.engine_id:
            # keys localized to whatever engine id the message names
            spec = user["spec"]
            kul = agent.derive(spec["auth"]["alg"], spec["priv"]["type"], bytes.fromhex(spec["priv"]["key"]), u["engine_id"])
        plain = usm.priv_decrypt(user["priv_alg"], kul, u["boots"], u["time"], u["priv"], m["encrypted"])
        out["plain"] = plain
        sc = snmp.dec_scoped(plain, 0, len(plain), request=True, allow_padding=True)
    except (ValueError, StrictError) as e:
        out["error"] = "decrypt/scoped: %s" % e
        return out
    out["ok"] = True
    out["scoped"] = sc
    out["pdu"] = sc["pdu"]
    out["request_id"] = sc["pdu"]["request_id"]
    return out


# ---------------------------------------------------------------- acceptance model
MATCH, SKIP, REJECT, UNKNOWN, SOCKERR = "MATCH", "SKIP", "REJECT", "UNKNOWN", "SOCKERR"


def classify(sess_cfg, pending, label):
    """Verdict for one datagram consumed while `pending` (decode_wire result of
    the outstanding request) was waiting. Computed only from what the injector
    did to the datagram (its label), never by re-decoding it."""
    if label.get("errno") is not None:
        return SOCKERR
    wf = label.get("wf")
    if wf is None:
        return UNKNOWN
    if wf is False:
        return REJECT
    if label.get("reflect"):
        return UNKNOWN  # statement leaves it open: SnmpError or skip
    ver = {"v1": 0, "v2c": 1, "v3": 3}[sess_cfg.get("version", "v2c")]
    if label["version"] != ver:
        return REJECT
    if not pending.get("ok"):
        return UNKNOWN
    if label.get("pdu") not in ("response", "report"):
        # a request-type PDU: with a foreign request-id it is a well-formed message that fails
        # the test (skipped); with the outstanding id the statement leaves the outcome open
        if label.get("pdu") in ("get", "getnext", "getbulk") and pending.get("request_id") is not None and label.get("request_id") != pending["request_id"]:
            return SKIP
        return UNKNOWN
    if ver != 3:
        if bytes.fromhex(label["community"]) != pending["m"]["community"]:
            return SKIP
        if label["pdu"] == "report":
            return MATCH
        if label["request_id"] != pending["request_id"]:
            return SKIP
        return MATCH
    pu = pending["m"]["usm"]
    if bytes.fromhex(label["user"]) != pu["user"]:
        return SKIP
    if pu["engine_id"] and bytes.fromhex(label["engine_id"]) != pu["engine_id"]:
        return SKIP
    if label["msg_id"] != pending["msg_id"]:
        return SKIP
    if label.get("salt_len") is not None:
        return UNKNOWN
    is_report = label["pdu"] == "report"
    if not is_report and label["request_id"] != pending["request_id"]:
        return SKIP
    # security level (C10): a session that signs its requests accepts Responses
    # only if authenticated (and encrypted when it encrypts); Reports may pass.
    req_flags = pending["m"]["flags"]
    if req_flags & 1 and not is_report:
        if label["mac"] != "valid" or not (label["flags"] & 1):
            return SKIP
        if req_flags & 2 and not label.get("encrypted"):
            return SKIP
    if is_report and label.get("mac") not in ("valid", "none"):
        return UNKNOWN  # Report claiming authentication with a bad MAC: nothing demanded
    if label.get("encrypted") and not (req_flags & 2):
        return UNKNOWN  # encrypted reply to a session without privacy key
    return MATCH


def exchange_verdict(run, s, ex):
    """Returns (kind, payload, problems). kind in MATCH/REJECT/SOCKERR/TIMEOUT/UNKNOWN.
    problems: list of V for acceptance errors visible from the consumption pattern."""
    cfg = run.sess_cfg[s]
    pending = run.wire_dec[(s, ex["serial"])]
    verdicts = []
    for did in ex["rx"]:
        lab = run.dgrams[did]["label"]
        verdicts.append((classify(cfg, pending, lab), lab, did))
    for i, (v, lab, did) in enumerate(verdicts):
        if v == UNKNOWN:
            return UNKNOWN, None, verdicts
        if v != SKIP:
            return v, lab, verdicts[: i + 1] if i + 1 == len(verdicts) else verdicts
    return "TIMEOUT", None, verdicts


# ---------------------------------------------------------------- result mapping (C07)
def expect_get(label):
    """Expected outcome of get() for a delivered reply label: ('value', pyval) | ('exc', name)."""
    if label["pdu"] == "report":
        return ("exc", "SnmpAuthError")
    vbs = label["varbinds"]
    if len(vbs) == 0:
        return ("value", None)
    if len(vbs) > 1:
        return ("exc", "SnmpError")
    val = vbs[0][1]
    if val[0] in snmp.EXCEPTION_KINDS:
        return ("exc", "NoSuchInstance")
    if val[0] == "null":
        return ("value", None)
    return ("value", snmp.denote(val))


def expect_get_many(label):
    if label["pdu"] == "report":
        return ("exc", "SnmpAuthError")
    d = {}
    for o, val in label["varbinds"]:
        if snmp.is_data(val):
            d[o] = snmp.denote(val)
    return ("value", d)


EXC_FAMILY = {
    "SnmpAuthError": ("PySnmpAuthError",),
    "NoSuchInstance": ("PyNoSuchInstance",),
    "SnmpError": ("PySnmpError",),
    "SnmpDecodeError": ("PySnmpDecodeError",),
    "SnmpEncodeError": ("PySnmpEncodeError",),
    "TimeoutError": ("TimeoutError",),
}


def exc_is(outcome_exc, name):
    """outcome_exc: dict from runner.exc_outcome; name: documented exception name."""
    want = EXC_FAMILY.get(name, (name,))
    return any(w in outcome_exc["mro"] for w in want)


def values_equal(actual_norm, expected_py):
    from .runner import denorm

    a = denorm(actual_norm)
    if isinstance(expected_py, dict):
        if not isinstance(a, dict) or set(a) != set(expected_py):
            return False
        return all(snmp.same_value(a[k], expected_py[k]) for k in a)
    return snmp.same_value(a, expected_py)


def in_subtree(base, oid, strict=True):
    n = len(base)
    if strict:
        return len(oid) > n and oid[:n] == base
    return len(oid) >= n and oid[:n] == base
