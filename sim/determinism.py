"""Determinism proof: the same (seed, property, index) must give byte-identical
traces in-batch, in a fresh interpreter with another PYTHONHASHSEED, and at
worker counts 1 and 16."""

from __future__ import annotations

import json
import os
import subprocess
import sys
import time

from . import engine

ALL = ["C%02d" % i for i in range(1, 20)]


def traces(pid, seed, indices, jobs):
    res, crashes = engine.run_batch(pid, seed, "quick", indices, jobs)
    out = {}
    for r in res:
        out[r["index"]] = r.get("trace") or ("HARNESS:" + r.get("harness", "")[:80])
    for c in crashes:
        out[c["index"]] = "CRASH"
    return out


def main(nseeds, props, seed):
    props = props or ALL
    t0 = time.time()
    bad = 0
    total = 0
    report = {}
    for pid in props:
        n = nseeds
        prop = engine.get_prop(pid)
        n = min(n, prop.runs("quick"))
        if pid in ("C14", "C17", "C11", "C19"):
            n = min(n, 64)
        idx = list(range(n))
        a = traces(pid, seed, idx, 16)
        b = traces(pid, seed, idx, 1 if n <= 64 else 3)
        env = dict(os.environ)
        env["PYTHONHASHSEED"] = "987654321"
        code = "import sys,json; sys.path.insert(0,%r); from sim import determinism as d; print(json.dumps(d.traces(%r,%d,list(range(%d)),7)))" % (engine.ROOT, pid, seed, n)
        p = subprocess.run([sys.executable, "-c", code], env=env, stdout=subprocess.PIPE, stderr=subprocess.PIPE, text=True)
        try:
            c = {int(k): v for k, v in json.loads(p.stdout.strip().splitlines()[-1]).items()}
        except Exception:  # noqa: BLE001
            print("HARNESS-ERROR fresh interpreter failed for %s: %s" % (pid, p.stderr[-500:]))
            return 2
        diff = [i for i in idx if not (a.get(i) == b.get(i) == c.get(i))]
        total += n
        bad += len(diff)
        report[pid] = {"runs": n, "mismatches": len(diff)}
        print("%s: %d runs x 3 executions (16 workers / 1-3 workers / fresh interpreter, other PYTHONHASHSEED, 7 workers): %d mismatches %s" % (pid, n, len(diff), diff[:5]))
    os.makedirs(engine.EVIDENCE_DIR, exist_ok=True)
    with open(os.path.join(engine.ROOT, "evidence", "determinism.json"), "w") as f:
        json.dump({"seed": seed, "per_property": report, "total_runs": total, "mismatches": bad, "wall_s": round(time.time() - t0, 1)}, f, indent=1)
    print("determinism: %d runs, %d mismatches, %.1fs" % (total, bad, time.time() - t0))
    return 1 if bad else 0
