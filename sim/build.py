"""Build the extension from the repository's current working tree with the
verification cfg enabled and stage it next to a copy of the Python package."""

from __future__ import annotations

import fcntl
import hashlib
import os
import shutil
import subprocess
import sys

ROOT = os.path.dirname(os.path.dirname(os.path.abspath(__file__)))
BUILD = os.path.join(ROOT, ".build")
GUARD = "gufo_snmp_verif"


def repo_dir():
    return os.environ.get("VERIF_REPO", "/repo")


def _env():
    env = dict(os.environ)
    env["CARGO_NET_OFFLINE"] = "true"
    env["RUSTFLAGS"] = "--cfg %s" % GUARD
    env["CARGO_TARGET_DIR"] = target_dir()
    return env


def target_dir():
    """One cargo target dir per repository path: two checkouts of the same
    package would otherwise overwrite each other's uplifted cdylib."""
    repo = os.path.realpath(repo_dir())
    if repo == "/repo":
        return os.path.join(BUILD, "target")
    return os.path.join(BUILD, "target-" + hashlib.sha256(repo.encode()).hexdigest()[:10])


def build_and_stage(verbose=False):
    """Returns the staged package directory (to be put on sys.path)."""
    os.makedirs(BUILD, exist_ok=True)
    repo = repo_dir()
    with open(os.path.join(BUILD, "lock"), "w") as lock:
        fcntl.flock(lock, fcntl.LOCK_EX)
        cmd = ["cargo", "build", "--lib", "--release", "--offline", "--manifest-path", os.path.join(repo, "Cargo.toml")]
        p = subprocess.run(cmd, env=_env(), stdout=subprocess.PIPE, stderr=subprocess.STDOUT, text=True)
        if p.returncode != 0:
            sys.stderr.write(p.stdout[-6000:])
            raise SystemExit(2)
        if verbose:
            sys.stderr.write(p.stdout[-400:])
        so = os.path.join(target_dir(), "release", "libgufo_snmp.so")
        h = hashlib.sha256()
        with open(so, "rb") as f:
            h.update(f.read())
        src = os.path.join(repo, "src", "gufo")
        files = []
        for d, _, fs in os.walk(src):
            for fn in fs:
                if fn.endswith((".py", ".pyi", ".typed")):
                    files.append(os.path.join(d, fn))
        for fn in sorted(files):
            h.update(fn[len(src):].encode())
            with open(fn, "rb") as f:
                h.update(f.read())
        tag = h.hexdigest()[:16]
        dst = os.path.join(BUILD, "pkg-" + tag)
        if not os.path.exists(os.path.join(dst, "ready")):
            tmp = dst + ".tmp%d" % os.getpid()
            shutil.rmtree(tmp, ignore_errors=True)
            os.makedirs(tmp)
            shutil.copytree(src, os.path.join(tmp, "gufo"), ignore=shutil.ignore_patterns("__pycache__", "*.so", "*.pyc"))
            shutil.copy2(so, os.path.join(tmp, "gufo", "snmp", "_fast.so"))
            with open(os.path.join(tmp, "ready"), "w") as f:
                f.write(tag)
            shutil.rmtree(dst, ignore_errors=True)
            os.rename(tmp, dst)
        os.utime(dst)
        # keep the few most recent staged trees only
        pk = sorted((os.path.join(BUILD, d) for d in os.listdir(BUILD) if d.startswith("pkg-") and ".tmp" not in d), key=os.path.getmtime)
        # (never one that a check running in parallel on another checkout may still be using)
        import time as _time

        for old in pk[:-6]:
            if _time.time() - os.path.getmtime(old) > 3 * 3600:
                shutil.rmtree(old, ignore_errors=True)
    os.environ["VERIF_PKG"] = dst
    return dst


def baseline_off():
    """The repository's pinned suite with the guard OFF (plain cargo test)."""
    env = dict(os.environ)
    env["CARGO_NET_OFFLINE"] = "true"
    env.pop("RUSTFLAGS", None)
    env["CARGO_TARGET_DIR"] = os.path.join(BUILD, "target-off")
    cmd = ["cargo", "test", "--workspace", "--no-fail-fast", "--offline", "--manifest-path", os.path.join(repo_dir(), "Cargo.toml")]
    return subprocess.call(cmd, env=env)
