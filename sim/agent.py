"""Reference SNMP agent (the second party of the simulation).

Independent Python implementation of RFC 1157 / 3416 / 3414 / 3584 semantics
over a finite MIB. A reply is produced as a `Reply`: a plaintext message tree
plus the security transform to apply, so that faults can be injected before
(inner) or after (outer) signing and encryption.
"""

from __future__ import annotations

import bisect

from . import ber, snmp, usm
from .ber import StrictError

USM_STATS = {
    "unsupportedSecLevels": (1, 3, 6, 1, 6, 3, 15, 1, 1, 1, 0),
    "notInTimeWindows": (1, 3, 6, 1, 6, 3, 15, 1, 1, 2, 0),
    "unknownUserNames": (1, 3, 6, 1, 6, 3, 15, 1, 1, 3, 0),
    "unknownEngineIDs": (1, 3, 6, 1, 6, 3, 15, 1, 1, 4, 0),
    "wrongDigests": (1, 3, 6, 1, 6, 3, 15, 1, 1, 5, 0),
    "decryptionErrors": (1, 3, 6, 1, 6, 3, 15, 1, 1, 6, 0),
}


class Mib:
    def __init__(self, rows):
        """rows: iterable of (oid text or arcs, value)."""
        items = {}
        for o, v in rows:
            arcs = ber.parse_oid_text(o) if isinstance(o, str) else tuple(o)
            items[arcs] = v
        self.keys = sorted(items)
        self.vals = [items[k] for k in self.keys]

    def get(self, arcs):
        i = bisect.bisect_left(self.keys, arcs)
        if i < len(self.keys) and self.keys[i] == arcs:
            return self.vals[i]
        return None

    def next(self, arcs, skip=None):
        i = bisect.bisect_right(self.keys, arcs)
        while i < len(self.keys):
            if skip is None or not skip(self.vals[i]):
                return self.keys[i], self.vals[i]
            i += 1
        return None

    def below(self, base, skip=None):
        n = len(base)
        return [(k, v) for k, v in zip(self.keys, self.vals) if len(k) > n and k[:n] == base and (skip is None or not skip(v))]


class Reply:
    """A reply under construction. `tree` is the plaintext message; `sec`
    describes signing / encryption to be applied by finalize()."""

    def __init__(self, tree, label, sec=None):
        self.tree = tree
        self.label = label
        self.sec = sec  # None or dict(auth_alg, auth_kul, priv_alg, priv_kul, salt, boots, time, mac)

    def clone(self) -> "Reply":
        import copy

        return Reply(self.tree.clone(), copy.deepcopy(self.label), dict(self.sec) if self.sec is not None else None)

    def finalize(self) -> bytes:
        tree = self.tree
        sec = self.sec
        if sec is None:
            return tree.encode()
        if sec.get("priv_alg") and sec.get("encrypt", True):
            pos = next((i for i, c in enumerate(tree.children or []) if c.name == "scoped-pdu"), None)
            if pos is not None:
                plain = tree.children[pos].encode() + b"\0" * sec.get("pad", 0)
                cipher = usm.priv_encrypt(sec["priv_alg"], sec["priv_kul"], sec["boots"], sec["time"], sec["salt"], plain)
                if sec.get("cipher_trim"):
                    cipher = cipher[: max(0, len(cipher) - sec["cipher_trim"])]
                tree.children[pos] = ber.prim(0x04, cipher, sec.get("enc_width", 0), name="encrypted")
        if sec.get("auth_alg") and sec.get("sign", True):
            a = snmp.find(tree, "usm-auth")
            if a is None or a.children is not None:
                return tree.encode()
            a.content = b"\0" * 12
            mac = usm.hmac96(sec["auth_alg"], sec["auth_kul"], tree.encode())
            mode = sec.get("mac", "valid")
            if mode == "valid":
                pass
            elif mode == "zero":
                mac = b"\0" * 12
            elif mode == "flip":
                bit = sec.get("flip_bit", 0) % 96
                full = bytearray(mac)
                full[bit // 8] ^= 1 << (bit % 8)
                mac = bytes(full)
            elif mode == "xor-words":
                # the same 32-bit mask applied to two (or all three) of the MAC's words: the differences
                # cancel under an XOR fold, never under a proper comparison
                mask = bytes.fromhex(sec.get("xor_mask", "00000001"))
                full = bytearray(mac)
                for w in sec.get("xor_at", [0, 1]):
                    for i in range(4):
                        full[4 * w + i] ^= mask[i]
                mac = bytes(full)
            elif mode == "random":
                mac = bytes.fromhex(sec["mac_hex"])
            elif mode == "absent":
                mac = b""
            elif mode == "short":
                mac = mac[: sec.get("mac_len", 4)]
            a.content = mac
        return tree.encode()


class Agent:
    def __init__(self, cfg, sim):
        self.sim = sim
        self.cfg = cfg
        self.mib = Mib([(o, v) for o, v in cfg.get("mib", [])])
        self.cap = cfg.get("cap", 1000)
        self.cut_after_end = cfg.get("cut_after_end", False)
        self.nosuch = cfg.get("nosuch", "nosuchinstance")
        self.stamp = cfg.get("stamp", False)
        self.communities = [c.encode() if isinstance(c, str) else c for c in cfg.get("communities", ["public"])]
        self.bulk_budget = cfg.get("bulk_budget", 3000)
        # v3
        self.engine_id = bytes.fromhex(cfg.get("engine_id", "80001f8880aabbccdd"))
        self.boots = cfg.get("boots", 1)
        self.time0 = cfg.get("time0", 0)  # engineTime at t_restart
        self.t_restart = 0
        self.discovery_time = cfg.get("discovery_time", "real")
        self.users = {}
        for u in cfg.get("users", []):
            self.users[u["name"].encode()] = self._user_keys(u)
        self.salt_ctr = cfg.get("salt0", 0x1000)
        self.check_time_window = cfg.get("time_window", True)
        self.requests_seen = 0
        self.undecodable = []
        self.serial_of_request = 0

    # ---- configuration helpers
    def _user_keys(self, u):
        """Keys localized to this agent's engine id, derived with hashlib only."""
        out = {"auth_alg": 0, "priv_alg": 0, "spec": u}
        a = u.get("auth")
        if a:
            alg = a["alg"]
            out["auth_alg"] = alg
            out["auth_kul"] = self.derive(alg, a["type"], bytes.fromhex(a["key"]), self.engine_id)
            p = u.get("priv")
            if p:
                out["priv_alg"] = p["alg"]
                out["priv_kul"] = self.derive(alg, p["type"], bytes.fromhex(p["key"]), self.engine_id)
        return out

    @staticmethod
    def derive(alg, ktype, key, engine_id):
        if ktype == "password":
            return usm.localize(alg, usm.password_to_key(alg, key), engine_id)
        # master / localized keys shorter than the digest count as padded with trailing zeros
        if ktype == "master":
            return usm.localize(alg, (key + b"\0" * 64)[: usm.KEYLEN[alg]], engine_id)
        return (key + b"\0" * 64)[: usm.KEYLEN[alg]]

    def rekey(self):
        for name, u in list(self.users.items()):
            self.users[name] = self._user_keys(u["spec"])

    def engine_time(self):
        return self.time0 + (self.sim.now - self.t_restart) // 1_000_000_000

    def restart(self, boots=None, time0=0):
        self.boots = self.boots + 1 if boots is None else boots
        self.time0 = time0
        self.t_restart = self.sim.now

    def jump_time(self, delta_s):
        self.time0 += delta_s

    # ---- MIB operations (RFC 3416 4.2.1 - 4.2.3, RFC 1157 4.1.2/4.1.3)
    def _skip_v1(self, version):
        if version == snmp.V1:
            return lambda v: v[0] == "counter64"
        return None

    def _stamped(self, val, serial):
        if self.stamp and snmp.is_data(val):
            return ["octets", ("%d|" % serial).encode().hex() + (val[1] if val[0] == "octets" else b"v".hex())]
        return val

    def do_pdu(self, version, pdu, serial):
        """Return (error_status, error_index, varbinds) for a request PDU."""
        t = pdu["type"]
        oids = pdu["varbinds"]
        skip = self._skip_v1(version)
        if t == "get" and self.cfg.get("echo"):
            return 0, 0, [(o, ["int", i]) for i, o in enumerate(oids)]
        if t == "get":
            out = []
            for i, o in enumerate(oids):
                v = self.mib.get(o)
                if v is not None and skip and skip(v):
                    v = None
                if v is None:
                    if version == snmp.V1:
                        return 2, i + 1, [(x, ["null"]) for x in oids]
                    out.append((o, [self.nosuch]))
                else:
                    out.append((o, self._stamped(v, serial)))
            return 0, 0, out
        if t == "getnext":
            out = []
            for i, o in enumerate(oids):
                n = self.mib.next(o, skip)
                if n is None:
                    if version == snmp.V1:
                        return 2, i + 1, [(x, ["null"]) for x in oids]
                    out.append((o, ["endofmibview"]))
                else:
                    out.append((n[0], self._stamped(n[1], serial)))
            return 0, 0, out
        if t == "getbulk":
            if version == snmp.V1:
                return None
            nr = max(0, pdu["non_repeaters"])
            mr = max(0, pdu["max_repetitions"])
            out = []
            for o in oids[:nr]:
                n = self.mib.next(o)
                out.append((n[0], self._stamped(n[1], serial)) if n else (o, ["endofmibview"]))
            rep = list(oids[nr:])
            reps = min(mr, self.cap)
            for _ in range(reps):
                if not rep:
                    break
                nxt = []
                all_end = True
                for o in rep:
                    n = self.mib.next(o)
                    if n is None:
                        out.append((o, ["endofmibview"]))
                        nxt.append(o)
                    else:
                        all_end = False
                        out.append((n[0], self._stamped(n[1], serial)))
                        nxt.append(n[0])
                rep = nxt
                if all_end and self.cut_after_end:
                    break
            # RFC 3416 4.2.3: a GetBulk response that would exceed the maximum message size is
            # generated with fewer repetitions (the client's buffer at the pinned commit: 4080 octets)
            if self.bulk_budget:
                total, kept = 0, []
                for o, v in out:
                    n = len(snmp.varbind_node(o, v).encode())
                    if kept and total + n > self.bulk_budget:
                        break
                    total += n
                    kept.append((o, v))
                out = kept
            return 0, 0, out
        return None

    # ---- request handling
    def handle(self, data: bytes, answers):
        """Process one request datagram; return a list of Reply (0 or 1)."""
        self.requests_seen += 1
        try:
            m = snmp.decode_message(data, request=True)
        except StrictError as e:
            self.undecodable.append((answers, str(e)))
            return []
        serial = answers[1] if answers else 0
        if m["version"] in (snmp.V1, snmp.V2C):
            if m["community"] not in self.communities:
                return []
            res = self.do_pdu(m["version"], m["pdu"], serial)
            if res is None:
                return []
            es, ei, vbs = res
            return [self.community_reply(m["version"], m["community"], m["pdu"]["request_id"], es, ei, vbs, answers)]
        return self.handle_v3(data, m, answers)

    def community_reply(self, version, community, request_id, es, ei, vbs, answers, pdu_tag=snmp.PDU_RESPONSE):
        tree = snmp.community_msg(version, community, snmp.pdu_node(pdu_tag, request_id, es, ei, vbs))
        label = {
            "wf": True,
            "version": version,
            "community": community.hex(),
            "request_id": request_id,
            "pdu": snmp.PDU_NAMES[pdu_tag],
            "error_status": es,
            "varbinds": [[ber.oid_text(o), v] for o, v, *_ in vbs],
            "answers": list(answers) if answers else None,
        }
        return Reply(tree, label)

    def v3_reply(self, m, pdu_tag, request_id, es, ei, vbs, answers, user, level, report=None, boots=None, time=None):
        """level: 0 noAuth, 1 authNoPriv, 3 authPriv (flag bits)."""
        boots = self.boots if boots is None else boots
        time = self.engine_time() if time is None else time
        sec = None
        flags = level & 3
        priv_field = b""
        auth_field = b""
        if level & 1:
            sec = {"auth_alg": user["auth_alg"], "auth_kul": user["auth_kul"], "boots": boots, "time": time}
            auth_field = b"\0" * 12
            if level & 2:
                self.salt_ctr += 1
                salt = (self.salt_ctr & 0xFFFFFFFFFFFFFFFF).to_bytes(8, "big")
                sec.update(priv_alg=user["priv_alg"], priv_kul=user["priv_kul"], salt=salt)
                # agents may pad the scoped PDU (less than one cipher block)
                pads = self.cfg.get("resp_pad")
                if pads:
                    sec["pad"] = pads[self.salt_ctr % len(pads)] % (8 if user["priv_alg"] == 1 else 16)
                priv_field = salt
        usm_f = dict(engine_id=self.engine_id, boots=boots, time=time, user=m["usm"]["user"], auth=auth_field, priv=priv_field)
        ctx = self.cfg.get("ctx_engine_id")
        ctx_id = self.engine_id if ctx is None else bytes.fromhex(ctx)
        scoped = snmp.scoped_pdu_node(ctx_id, self.cfg.get("ctx_name", "").encode(), snmp.pdu_node(pdu_tag, request_id, es, ei, vbs))
        tree = snmp.v3_msg(m["msg_id"], 65507, flags, usm_f, scoped)
        label = {
            "wf": True,
            "version": 3,
            "user": m["usm"]["user"].hex(),
            "engine_id": self.engine_id.hex(),
            "msg_id": m["msg_id"],
            "request_id": request_id,
            "pdu": snmp.PDU_NAMES[pdu_tag],
            "error_status": es,
            "varbinds": [[ber.oid_text(o), v] for o, v, *_ in vbs],
            "answers": list(answers) if answers else None,
            "flags": flags,
            "mac": "valid" if level & 1 else "none",
            "encrypted": bool(level & 2),
            "boots": boots,
            "time": time,
            "report": report,
        }
        return Reply(tree, label, sec)

    def report(self, m, name, answers, user=None, level=0, request_id=0, boots=None, time=None):
        self.sim.count("agent.report." + name)
        vbs = [(USM_STATS[name], ["counter32", 1 + (self.requests_seen & 0xFFFF)])]
        return [self.v3_reply(m, snmp.PDU_REPORT, request_id, 0, 0, vbs, answers, user, level, report=name, boots=boots, time=time)]

    def handle_v3(self, data, m, answers):
        u = m["usm"]
        flags = m["flags"]
        reportable = bool(flags & 4)
        # request id is only visible in clear messages
        rid = m["scoped"]["pdu"]["request_id"] if "scoped" in m else 0
        if m["sec_model"] != 3:
            return []
        if u["engine_id"] != self.engine_id:
            if not reportable:
                return []
            if self.discovery_time == "zero":
                return self.report(m, "unknownEngineIDs", answers, request_id=rid, boots=0, time=0)
            return self.report(m, "unknownEngineIDs", answers, request_id=rid)
        user = self.users.get(u["user"])
        if user is None:
            return self.report(m, "unknownUserNames", answers, request_id=rid) if reportable else []
        want_auth = bool(flags & 1)
        want_priv = bool(flags & 2)
        if (want_priv and not want_auth) or (want_auth and not user["auth_alg"]) or (want_priv and not user["priv_alg"]):
            return self.report(m, "unsupportedSecLevels", answers, request_id=rid) if reportable else []
        if want_auth:
            if len(u["auth"]) != 12:
                return self.report(m, "wrongDigests", answers, request_id=rid) if reportable else []
            z = bytearray(data)
            z[u["auth_off"] : u["auth_off"] + 12] = b"\0" * 12
            if usm.hmac96(user["auth_alg"], user["auth_kul"], bytes(z)) != u["auth"]:
                return self.report(m, "wrongDigests", answers, request_id=rid) if reportable else []
            if self.check_time_window:
                et = self.engine_time()
                if u["boots"] != self.boots or self.boots == 2147483647 or abs(u["time"] - et) > 150:
                    return self.report(m, "notInTimeWindows", answers, user=user, level=1, request_id=rid) if reportable else []
        if want_priv:
            try:
                plain = usm.priv_decrypt(user["priv_alg"], user["priv_kul"], u["boots"], u["time"], u["priv"], m["encrypted"])
                scoped = snmp.dec_scoped(plain, 0, len(plain), request=True, allow_padding=True)
            except (ValueError, StrictError, KeyError):
                return self.report(m, "decryptionErrors", answers, user=user, level=1) if reportable else []
        else:
            if "scoped" not in m:
                return self.report(m, "decryptionErrors", answers, user=user, level=flags & 1) if reportable else []
            scoped = m["scoped"]
        # security level demanded by the user's configuration (VACM): a user with
        # keys must use them
        need = (1 if user["auth_alg"] else 0) | (2 if user["priv_alg"] else 0)
        if (flags & 3) != need:
            return self.report(m, "unsupportedSecLevels", answers, request_id=scoped["pdu"]["request_id"]) if reportable else []
        pdu = scoped["pdu"]
        res = self.do_pdu(snmp.V3, pdu, answers[1] if answers else 0)
        if res is None:
            return []
        es, ei, vbs = res
        return [self.v3_reply(m, snmp.PDU_RESPONSE, pdu["request_id"], es, ei, vbs, answers, user, flags & 3)]
