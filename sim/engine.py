"""Check engine: seeded plan generation, parallel execution in forked
workers (a worker that dies or hangs is itself a finding), violation
minimisation, replay files, known-findings matching and evidence output.
"""

from __future__ import annotations

import hashlib
import importlib
import json
import multiprocessing as mp
import os
import random
import sys
import time
import traceback

from .core import HarnessError

ROOT = os.path.dirname(os.path.dirname(os.path.abspath(__file__)))
EVIDENCE_DIR = os.path.join(ROOT, "evidence")
REPLAY_DIR = os.path.join(ROOT, "replays")
KNOWN_FILE = os.path.join(ROOT, "known_findings.json")
DEFAULT_SEED = 20261002

REAL_COMPONENTS = [
    "gufo.snmp Python package (sync/async sessions, iterators, policer, user/keys), staged from /repo/src/gufo",
    "_fast extension built from /repo with --cfg gufo_snmp_verif (BER, PDUs, messages, USM, ciphers, request ids, buffer pool, socket classes)",
    "CPython asyncio (Task, Future, wait_for, add_reader) on a virtual-time selector",
]
STUB_COMPONENTS = [
    "kernel UDP send/recv and SO_RCVTIMEO blocking (simulated network and receive queues)",
    "clocks: blocking-recv time, perf_counter_ns, time.sleep, event-loop clock (one discrete-event clock, integer ns)",
    "OS entropy (seeded splitmix64 with force-next queue)",
    "uninitialised buffer memory (deterministic poison fill)",
    "the SNMP agent (independent reference model, optionally hostile)",
]


def get_prop(pid):
    mod = importlib.import_module("sim.props.%s" % pid.lower())
    return mod.PROP


def run_seed(seed, pid, family, index):
    h = hashlib.sha256(("%d|%s|%s|%d" % (seed, pid, family, index)).encode()).digest()
    return int.from_bytes(h[:8], "big")


def pick_family(prop, tier, index):
    fams = prop.families(tier)
    total = sum(w for _, w in fams)
    x = index % total
    for name, w in fams:
        if x < w:
            return name
        x -= w
    return fams[-1][0]


WALL_CLOCK_EVERY = 1500


def make_plan(prop, seed, tier, index):
    family = pick_family(prop, tier, index)
    rs = run_seed(seed, prop.id, family, index)
    rng = random.Random(rs)
    plan = prop.gen_indexed(rng, family, tier, index) if hasattr(prop, "gen_indexed") else prop.gen(rng, family, tier)
    plan.setdefault("format", 1)
    plan["property"] = prop.id
    plan["family"] = family
    plan["seed"] = seed
    plan["index"] = index
    plan.setdefault("prng_seed", rs & 0xFFFFFFFF)
    every = max(40, getattr(prop, "quick_runs", WALL_CLOCK_EVERY * 24) // 24)
    if index % every == every // 2 and len(plan.get("ops") or []) >= 2:
        # wall-clock perturbation (about 24 runs of a quick batch): a real pause of 1.1 s between two
        # operations during which no simulated time passes - invisible to code that keeps to the seams
        ops = plan["ops"]
        pos = max(1, len(ops) // 2)
        pause = {"op": "idle", "ns": 1, "real_s": 1.1}
        if "s" in ops[pos - 1]:
            pause["s"] = ops[pos - 1]["s"]
        ops.insert(pos, pause)
    return plan


def abstract_trace(run):
    """Hash of the sequence of event kinds / session / outcome class / fault kind."""
    h = hashlib.sha256()
    for ev in run.sim.hist:
        k = ev[0]
        if k == "tx":
            h.update(b"t%d" % ev[1])
        elif k == "rx":
            lab = run.dgrams.get(ev[3], {}).get("label", {})
            h.update(("r%d%s%s" % (ev[1], lab.get("why", ""), lab.get("pdu", ""))).encode())
        elif k == "rx-none":
            h.update(b"n%d" % ev[1])
        elif k == "call":
            h.update(("c%d%s" % (ev[1], ev[3])).encode())
        elif k == "ret":
            o = ev[3]
            if isinstance(o, dict) and "exc" in o:
                h.update(("x" + o["exc"]).encode())
            elif isinstance(o, dict) and "items" in o:
                end = o["end"]
                h.update(("w%d%s" % (len(o["items"]), end if isinstance(end, str) else end["exc"])).encode())
            else:
                h.update(b"o")
        elif k in ("sleep", "idle", "env"):
            h.update(k.encode())
    for c in sorted(run.sim.counters):
        if c.startswith("fault.") or c.startswith("env.") or c.startswith("agent."):
            h.update(c.encode())
    return h.hexdigest()[:16]


def execute_plan(prop, plan):
    """Run one plan; returns result dict. Raises HarnessError on simulator defects."""
    from . import runner

    run = prop.execute(plan) if hasattr(prop, "execute") else runner.execute(plan)
    viols = prop.check(run)
    if not getattr(prop, "handles_session_failure", False):
        from .oracle import V

        for r in getattr(run, "session_failures", []):
            if r["op"].get("op") == "session":
                viols.append(V("%s.valid-session-refused" % prop.id, "constructing session %d (%s) raised %s: %s" % (r["s"], run.sess_cfg[r["s"]].get("version"), r["exc"]["exc"], r["exc"]["msg"][:100]), exc=r["exc"]["exc"]))
    res = {
        "violations": [v.as_dict() for v in viols],
        "trace": run.sim.trace_hash() if hasattr(run, "sim") else run.trace_hash(),
        "abstract": prop.abstract(run) if hasattr(prop, "abstract") else abstract_trace(run),
        "nontrivial": bool(prop.nontrivial(run)),
        "counters": dict(run.sim.counters) if hasattr(run, "sim") else dict(run.counters),
        "sim_ns": run.sim.now if hasattr(run, "sim") else run.now,
        "calls": len(run.results) if hasattr(run, "results") else 0,
    }
    return res


# ---------------------------------------------------------------- workers
def _run_forked(prop, plan):
    """Execute one plan in a forked child of this (pristine) worker: a run then
    starts from a process in which the code under test has never executed."""
    import pickle

    rfd, wfd = os.pipe()
    child = os.fork()
    if child == 0:
        code = 0
        try:
            os.close(rfd)
            try:
                r = ("ok", execute_plan(prop, plan))
            except HarnessError as e:
                r = ("harness", "%s\n%s" % (e, traceback.format_exc()))
            except BaseException as e:  # noqa: BLE001
                r = ("harness", "%r\n%s" % (e, traceback.format_exc()))
            with os.fdopen(wfd, "wb") as f:
                pickle.dump(r, f)
        except BaseException:  # noqa: BLE001
            code = 4
        os._exit(code)
    os.close(wfd)
    with os.fdopen(rfd, "rb") as f:
        data = f.read()
    _, status = os.waitpid(child, 0)
    if not data:
        return ("died", status)
    return pickle.loads(data)


def _worker(pid, seed, tier, indices, wid, cur, beat, q, isolated=False):
    try:
        sys.path.insert(0, ROOT)
        prop = get_prop(pid)
        batch = []
        if isolated:
            from . import runner

            runner.gufo()  # import the code under test, execute nothing
        for idx in indices:
            cur[wid] = idx
            beat[wid] = time.time()
            plan = {"family": "?"}
            try:
                plan = make_plan(prop, seed, tier, idx)
                if isolated:
                    kind, payload = _run_forked(prop, plan)
                    if kind == "died":
                        os._exit(9)  # let the supervisor record the crash for this index
                    if kind == "harness":
                        raise HarnessError(payload)
                    r = payload
                else:
                    r = execute_plan(prop, plan)
                r["index"] = idx
                r["family"] = plan["family"]
            except HarnessError as e:
                r = {"index": idx, "family": plan["family"], "harness": "%s\n%s" % (e, traceback.format_exc())}
            except Exception as e:  # noqa: BLE001
                r = {"index": idx, "family": plan["family"], "harness": "%r\n%s" % (e, traceback.format_exc())}
            batch.append(r)
            if len(batch) >= 64:
                q.put(("res", wid, batch))
                batch = []
        if batch:
            q.put(("res", wid, batch))
        cur[wid] = -1
        q.put(("done", wid, None))
    except BaseException as e:  # noqa: BLE001
        q.put(("fatal", wid, "%r\n%s" % (e, traceback.format_exc())))
        try:
            q.close()
            q.join_thread()  # make sure the message leaves before the process does
        except Exception:  # noqa: BLE001
            pass
        os._exit(3)


HANG_S = 120.0


def run_batch(pid, seed, tier, indices, jobs, isolated=False):
    """Execute run indices across forked workers. Returns (results, crashes).
    isolated=True: every run in its own forked child (no state of the code under
    test survives from one run to the next)."""
    ctx = mp.get_context("fork")
    q = ctx.Queue()
    jobs = max(1, min(jobs, len(indices)))
    # families are assigned by index modulo their total weight: a plain stride would hand every
    # plan of one (possibly expensive) family to the same few workers. Spread by a fixed permutation.
    spread = sorted(indices, key=lambda i: ((i + 1) * 0x9E3779B97F4A7C15) & 0xFFFFFFFFFFFFFFFF)
    slices = [sorted(spread[i::jobs]) for i in range(jobs)]
    cur = ctx.Array("q", [-1] * jobs, lock=False)
    beat = ctx.Array("d", [time.time()] * jobs, lock=False)
    procs = {}
    remaining = {}
    for wid, sl in enumerate(slices):
        p = ctx.Process(target=_worker, args=(pid, seed, tier, sl, wid, cur, beat, q, isolated))
        p.start()
        procs[wid] = p
        remaining[wid] = list(sl)
    results = []
    crashes = []
    done = set()
    fatal = []
    import queue as _q

    while len(done) < len(procs):
        try:
            kind, wid, payload = q.get(timeout=0.5)
        except _q.Empty:
            kind = None
        if kind == "res":
            results.extend(payload)
            got = {r["index"] for r in payload}
            remaining[wid] = [i for i in remaining[wid] if i not in got]
            continue
        if kind == "done":
            done.add(wid)
            continue
        if kind == "fatal":
            fatal.append(payload)
            done.add(wid)
            continue
        # no message: look for dead or hung workers
        now = time.time()
        for wid, p in list(procs.items()):
            if wid in done:
                continue
            dead = not p.is_alive()
            hung = (now - beat[wid]) > HANG_S and cur[wid] >= 0
            if dead or hung:
                # drain anything it managed to send
                try:
                    while True:
                        k2, w2, pl2 = q.get_nowait()
                        if k2 == "res":
                            results.extend(pl2)
                            got = {r["index"] for r in pl2}
                            remaining[w2] = [i for i in remaining[w2] if i not in got]
                        elif k2 == "done":
                            done.add(w2)
                        elif k2 == "fatal":
                            fatal.append(pl2)
                            done.add(w2)
                except _q.Empty:
                    pass
                if wid in done:
                    continue
                idx = cur[wid]
                if hung and not dead:
                    p.kill()
                    p.join()
                    crashes.append({"index": idx, "how": "hang", "detail": "no progress for %ds" % HANG_S})
                else:
                    crashes.append({"index": idx, "how": "died", "detail": "worker exit code %s" % p.exitcode})
                rest = [i for i in remaining[wid] if i != idx]
                remaining[wid] = rest
                if rest:
                    cur[wid] = -1
                    beat[wid] = time.time()
                    np_ = ctx.Process(target=_worker, args=(pid, seed, tier, rest, wid, cur, beat, q, isolated))
                    np_.start()
                    procs[wid] = np_
                else:
                    done.add(wid)
    for p in procs.values():
        p.join(timeout=5)
    if fatal:
        raise HarnessError("worker failure:\n" + "\n".join(fatal))
    return results, crashes


# ---------------------------------------------------------------- isolated single execution (for shrink / replay)
def _iso_child(pid, plan, conn):
    try:
        sys.path.insert(0, ROOT)
        prop = get_prop(pid)
        r = execute_plan(prop, plan)
        conn.send(("ok", r))
    except HarnessError as e:
        conn.send(("harness", "%s\n%s" % (e, traceback.format_exc())))
    except BaseException as e:  # noqa: BLE001
        conn.send(("harness", "%r\n%s" % (e, traceback.format_exc())))
    finally:
        conn.close()


def run_isolated(pid, plan, timeout=HANG_S):
    """Run one plan in a fresh forked process. Returns ('ok', res) | ('died', code) | ('hang', None) | ('harness', text)."""
    ctx = mp.get_context("fork")
    a, b = ctx.Pipe(duplex=False)
    p = ctx.Process(target=_iso_child, args=(pid, plan, b))
    p.start()
    b.close()
    out = None
    if a.poll(timeout):
        try:
            out = a.recv()
        except EOFError:
            out = None
    p.join(timeout=5)
    if out is None:
        if p.is_alive():
            p.kill()
            p.join()
            return ("hang", None)
        return ("died", p.exitcode)
    return out


# ---------------------------------------------------------------- shrinking
def _fails_same(prop, plan, oracle):
    try:
        r = execute_plan(prop, plan)
    except Exception:  # noqa: BLE001
        return False
    return any(v["oracle"] == oracle for v in r["violations"])


def shrink(prop, plan, oracle, budget=250):
    """Greedy delta-debugging over ops, script entries, fault items, MIB rows and
    sessions while the same oracle keeps failing. Runs in-process (the caller
    isolates it)."""
    import copy

    spent = [0]

    def test(p):
        if spent[0] >= budget:
            return False
        spent[0] += 1
        return _fails_same(prop, p, oracle)

    best = copy.deepcopy(plan)

    def try_list(get, set_):
        nonlocal best
        items = get(best)
        if not items:
            return
        n = 2
        while len(items) >= 1 and spent[0] < budget:
            chunk = max(1, len(items) // n)
            removed = False
            i = 0
            while i < len(items):
                cand_items = items[:i] + items[i + chunk :]
                cand = copy.deepcopy(best)
                set_(cand, cand_items)
                if test(cand):
                    best = cand
                    items = cand_items
                    removed = True
                else:
                    i += chunk
            if not removed:
                if chunk == 1:
                    break
                n = min(len(items), n * 2)
            if not items:
                break

    # ops
    try_list(lambda p: p.get("ops", []), lambda p, v: p.__setitem__("ops", v))
    # script entries
    def get_scripts(p):
        return sorted(p.get("scripts", {}).items())

    def set_scripts(p, v):
        p["scripts"] = dict(v)

    try_list(get_scripts, set_scripts)
    # reply items and their fault lists
    for key in sorted(best.get("scripts", {})):
        def get_items(p, key=key):
            return p["scripts"].get(key, {}).get("replies", [])

        def set_items(p, v, key=key):
            p["scripts"][key]["replies"] = v

        if key in best.get("scripts", {}):
            try_list(get_items, set_items)
        for j in range(len(best.get("scripts", {}).get(key, {}).get("replies", []))):
            for fld in ("inner", "outer"):
                def get_f(p, key=key, j=j, fld=fld):
                    try:
                        return p["scripts"][key]["replies"][j].get(fld, [])
                    except (KeyError, IndexError):
                        return []

                def set_f(p, v, key=key, j=j, fld=fld):
                    p["scripts"][key]["replies"][j][fld] = v

                try_list(get_f, set_f)
            rw = best.get("scripts", {}).get(key, {}).get("replies", [])
            if j < len(rw) and rw[j].get("varbinds"):
                def get_vb(p, key=key, j=j):
                    try:
                        return p["scripts"][key]["replies"][j].get("varbinds", [])
                    except (KeyError, IndexError):
                        return []

                def set_vb(p, v, key=key, j=j):
                    p["scripts"][key]["replies"][j]["varbinds"] = v

                try_list(get_vb, set_vb)
            if j < len(rw) and rw[j].get("rewrite"):
                def get_rw(p, key=key, j=j):
                    try:
                        return sorted(p["scripts"][key]["replies"][j].get("rewrite", {}).items())
                    except (KeyError, IndexError):
                        return []

                def set_rw(p, v, key=key, j=j):
                    p["scripts"][key]["replies"][j]["rewrite"] = dict(v)

                try_list(get_rw, set_rw)
    # OID lists of get_many ops
    for n in range(len(best.get("ops", []))):
        if len(best["ops"][n].get("oids", [])) > 1:
            def get_o(p, n=n):
                try:
                    return p["ops"][n].get("oids", [])
                except IndexError:
                    return []

            def set_o(p, v, n=n):
                if v:
                    p["ops"][n]["oids"] = v

            try_list(get_o, set_o)
    # MIB rows
    if best.get("agent", {}).get("mib"):
        try_list(lambda p: p["agent"]["mib"], lambda p, v: p["agent"].__setitem__("mib", v))
    # env / forced entropy
    if best.get("forced_random"):
        try_list(lambda p: p["forced_random"], lambda p, v: p.__setitem__("forced_random", v))
    # trailing sessions not referenced by any op
    used = {op.get("s", 0) for op in best.get("ops", []) if "s" in op or op.get("op") not in ("idle", "agent")}
    sess = best.get("sessions", [])
    while len(sess) > 1 and (len(sess) - 1) not in used and spent[0] < budget:
        cand = copy.deepcopy(best)
        cand["sessions"] = sess[:-1]
        if test(cand):
            best = cand
            sess = best["sessions"]
        else:
            break
    if hasattr(prop, "shrink_extra"):
        best = prop.shrink_extra(best, test)
    return best, spent[0]


def _shrink_child(pid, plan, oracle, conn):
    try:
        sys.path.insert(0, ROOT)
        prop = get_prop(pid)
        best, spent = shrink(prop, plan, oracle)
        r = execute_plan(prop, best)
        conn.send((best, spent, r))
    except BaseException as e:  # noqa: BLE001
        conn.send((None, 0, "%r" % (e,)))
    finally:
        conn.close()


def shrink_isolated(pid, plan, oracle, timeout=300):
    ctx = mp.get_context("fork")
    a, b = ctx.Pipe(duplex=False)
    p = ctx.Process(target=_shrink_child, args=(pid, plan, oracle, b))
    p.start()
    b.close()
    out = None
    if a.poll(timeout):
        try:
            out = a.recv()
        except EOFError:
            out = None
    if p.is_alive():
        p.kill()
    p.join()
    if out is None or out[0] is None:
        return None
    return out


# ---------------------------------------------------------------- known findings
def load_known():
    if not os.path.exists(KNOWN_FILE):
        return []
    with open(KNOWN_FILE) as f:
        return json.load(f)


def match_known(known, pid, viol):
    for k in known:
        if k.get("status") != "known" or k.get("property") != pid:
            continue
        if k.get("oracle") != viol["oracle"]:
            continue
        m = k.get("match", {})
        if all(viol.get("key", {}).get(a) == b for a, b in m.items()):
            return k
    return None


# ---------------------------------------------------------------- replay files
def write_replay(pid, plan, viol, trace, extra=None):
    os.makedirs(REPLAY_DIR, exist_ok=True)
    body = dict(plan)
    body["violation"] = {"oracle": viol["oracle"], "detail": viol["detail"], "key": viol.get("key", {}), "trace_sha256": trace}
    if extra:
        body["note"] = extra
    blob = json.dumps(body, sort_keys=True, indent=1)
    h = hashlib.sha256(blob.encode()).hexdigest()[:10]
    path = os.path.join(REPLAY_DIR, "%s-%s-%s.json" % (pid, plan.get("seed", 0), h))
    with open(path, "w") as f:
        f.write(blob)
    return path


def replay(path):
    """Re-execute a replay file in a fresh process. Exit code semantics in vsim."""
    with open(path) as f:
        plan = json.load(f)
    if plan.get("engine") == "bufsim":
        from . import bufsim

        return bufsim.replay(plan)
    pid = plan["property"]
    want = plan.get("violation", {})
    plan_exec = {k: v for k, v in plan.items() if k not in ("violation", "note")}
    kind, res = run_isolated(pid, plan_exec)
    if kind in ("died", "hang"):
        ok = want.get("oracle", "").endswith("process-" + kind) or want.get("oracle", "").endswith("process-died")
        return {"reproduced": ok, "how": kind, "detail": res}
    if kind == "harness":
        return {"reproduced": False, "how": "harness", "detail": res}
    same = [v for v in res["violations"] if v["oracle"] == want.get("oracle")]
    return {
        "reproduced": bool(same),
        "how": "violation" if same else "clean",
        "trace_match": res["trace"] == want.get("trace_sha256"),
        "violations": res["violations"],
    }


# ---------------------------------------------------------------- the check
def check(pid, tier="quick", seed=None, jobs=None, runs=None):
    t_start = time.time()
    prop = get_prop(pid)
    seed = DEFAULT_SEED if seed is None else seed
    jobs = jobs or int(os.environ.get("VERIF_JOBS", "16"))
    n = runs if runs is not None else prop.runs(tier)
    indices = list(range(n))
    extra = {}
    extra_viols = []
    if hasattr(prop, "pre_check"):
        extra, extra_viols = prop.pre_check(tier, seed)
    results, crashes = run_batch(pid, seed, tier, indices, jobs)
    harness = [r for r in results if "harness" in r]
    if harness:
        print("HARNESS-ERROR run index %d (%s):\n%s" % (harness[0]["index"], harness[0]["family"], harness[0]["harness"]))
        return 2
    # determinism self-check: re-run a sample in fresh processes and compare trace hashes
    def selfcheck(results_now, isolated):
        good_ = [r for r in results_now if "trace" in r]
        sample_ = good_[:: max(1, len(good_) // 24)][:24]
        bad_ = []
        if sample_:
            re_results, _ = run_batch(pid, seed, tier, [r["index"] for r in sample_], max(1, min(3, jobs)), isolated)
            by_idx = {r["index"]: r for r in re_results if "trace" in r}
            for r in sample_:
                o = by_idx.get(r["index"])
                if o is None or o["trace"] != r["trace"]:
                    bad_.append(r["index"])
        return good_, sample_, bad_

    good, sample, det_bad = selfcheck(results, False)
    isolation_note = None
    if det_bad:
        # Runs influence each other inside a worker process: the code under test keeps state
        # that the reset hook does not know about (e.g. a process-wide cache). Fall back to one
        # forked process per run, which is also what a replay is, and judge those results.
        isolation_note = "batch execution was not reproducible for run indices %s; every run was re-executed in its own forked process" % det_bad[:6]
        print("note: " + isolation_note)
        results, crashes = run_batch(pid, seed, tier, indices, jobs, isolated=True)
        harness = [r for r in results if "harness" in r]
        if harness:
            print("HARNESS-ERROR run index %d (%s):\n%s" % (harness[0]["index"], harness[0]["family"], harness[0]["harness"]))
            return 2
        good, sample, det_bad = selfcheck(results, True)
        if det_bad:
            print("HARNESS-ERROR nondeterministic replay for run indices %s (even with one process per run)" % det_bad[:10])
            return 2
    known = load_known()
    # collect violations
    viol_runs = []
    for r in good:
        for v in r["violations"]:
            viol_runs.append((r["index"], v))
    for c in crashes:
        viol_runs.append((c["index"], {"oracle": "%s.process-%s" % (pid, c["how"]), "detail": c["detail"], "key": {}}))
    reported = {}
    known_hits = {}
    exit_code = 0
    lines = []
    # one report per oracle id (the first, by index), minimised
    for idx, v in sorted(viol_runs, key=lambda x: x[0]):
        k = match_known(known, pid, v)
        if k is not None:
            known_hits.setdefault(json.dumps(k, sort_keys=True), [k, 0])[1] += 1
            continue
        if v["oracle"] in reported:
            reported[v["oracle"]]["count"] += 1
            continue
        plan = make_plan(prop, seed, tier, idx)
        rep = {"count": 1, "index": idx, "viol": v}
        reported[v["oracle"]] = rep
        if "process-" in v["oracle"]:
            rep["path"] = write_replay(pid, plan, v, None, "process died or hung; not minimised")
        else:
            out = shrink_isolated(pid, plan, v["oracle"])
            if out is not None and isinstance(out[2], dict):
                best, spent, r2 = out
                vv = [x for x in r2["violations"] if x["oracle"] == v["oracle"]]
                if vv:
                    rep["path"] = write_replay(pid, best, vv[0], r2["trace"], "minimised with %d re-executions" % spent)
                    rep["viol"] = vv[0]
            if "path" not in rep:
                kind, r1 = run_isolated(pid, plan)
                tr = r1["trace"] if kind == "ok" else None
                rep["path"] = write_replay(pid, plan, v, tr, "not minimised")
    for path, oracle, detail in extra_viols:
        exit_code = 1
        reported[oracle] = {"count": 1, "index": -1, "viol": {"oracle": oracle, "detail": detail}, "path": path, "extra": True}
    for key, (k, cnt) in known_hits.items():
        print("KNOWN-FINDING: property=%s %s (oracle %s, %d runs)" % (pid, k.get("what", ""), k.get("oracle"), cnt))
    for oracle, rep in reported.items():
        exit_code = 1
        print("VIOLATION property=%s replay=%s" % (pid, rep["path"]))
        print("  oracle=%s runs=%d first_index=%d detail=%s" % (oracle, rep["count"], rep["index"], rep["viol"]["detail"][:300]))
    # evidence
    counters = {}
    sim_ns = 0
    calls = 0
    distinct = set()
    fam_counts = {}
    for r in good:
        for k, c in r["counters"].items():
            counters[k] = counters.get(k, 0) + c
        sim_ns += r["sim_ns"]
        calls += r.get("calls", 0)
        fam_counts[r["family"]] = fam_counts.get(r["family"], 0) + 1
        if r["nontrivial"]:
            distinct.add(r["abstract"])
    wall = time.time() - t_start
    samples = []
    for i in indices[: min(3, len(indices))]:
        p = make_plan(prop, seed, tier, i)
        samples.append(prop.sample_view(p) if hasattr(prop, "sample_view") else _compact(p))
    zero_faults = [k for k in prop.expected_counters(tier) if counters.get(k, 0) == 0] if hasattr(prop, "expected_counters") else []
    ev = {
        "property_id": pid,
        "tier": tier,
        "seed": seed,
        "level": "exploration",
        "coverage": {
            "evaluations": len(good) + len(crashes),
            "distinct_nontrivial": len(distinct),
            "rule": prop.rule,
            "samples": samples,
            "families": fam_counts,
            "api_calls": calls,
            "simulated_seconds": sim_ns / 1e9,
            "runs_per_hour": int(len(good) / wall * 3600) if wall > 0 else 0,
            "seeds_per_hour": int(len(good) / wall * 3600) if wall > 0 else 0,
            "fault_and_probe_counts": dict(sorted(counters.items())),
            "probes_stuck_at_zero": zero_faults,
            "determinism_selfcheck": {"runs_reexecuted_in_fresh_processes": len(sample), "trace_mismatches": 0, "one_process_per_run": isolation_note},
            "components_real": REAL_COMPONENTS,
            "components_stub": STUB_COMPONENTS,
            "worker_crashes": len(crashes),
            "known_findings_printed": [k.get("what") for k, _ in known_hits.values()],
            "violation_oracles": sorted(reported),
            "jobs": jobs,
        },
        "assumptions": prop.assumptions,
        "wall_s": round(wall, 2),
        "violations": len(reported),
    }
    ev["coverage"].update(extra)
    os.makedirs(EVIDENCE_DIR, exist_ok=True)
    with open(os.path.join(EVIDENCE_DIR, "%s.json" % pid), "w") as f:
        json.dump(ev, f, indent=1, sort_keys=True)
    print("%s %s: %d runs, %d distinct non-trivial traces, %d violation class(es), %.1fs" % (pid, tier, len(good), len(distinct), len(reported), wall))
    if zero_faults:
        print("note: probes stuck at zero: %s" % ", ".join(zero_faults))
    return exit_code


def _compact(plan):
    s = json.dumps(plan, sort_keys=True)
    if len(s) > 3000:
        p = dict(plan)
        if "agent" in p and "mib" in p["agent"] and len(p["agent"]["mib"]) > 6:
            a = dict(p["agent"])
            a["mib"] = a["mib"][:6] + [["...", "%d rows" % len(plan["agent"]["mib"])]]
            p["agent"] = a
        if len(p.get("ops", [])) > 12:
            p["ops"] = p["ops"][:12] + [{"op": "...%d more" % (len(plan["ops"]) - 12)}]
        return p
    return plan
