// bufsim - seeded operation sequences on the real Buffer / BufferPool against a
// Vec<u8> model. One integer decides a whole sequence; a failing sequence is
// printed as "VIOLATION seed=<n> step=<k> <what>" and the process exits 1.
//
//   bufsim run  <first_seed> <count> [<ops_per_seq>]     native, many sequences
//   bufsim one  <seed> [<ops_per_seq>]                   one sequence (replay; also the Miri entry point)
//   bufsim pool <seed> <threads> <rounds>                pool scenario with real threads
//
// Under Miri ("cargo +nightly miri run -- one <seed>") the same sequences are
// checked for out-of-bounds accesses and reads of uninitialised memory.

use gufo_snmp::buf::{Buffer, get_buffer_pool};
use std::mem::MaybeUninit;

struct Rng(u64);
impl Rng {
    fn next(&mut self) -> u64 {
        self.0 = self.0.wrapping_add(0x9E37_79B9_7F4A_7C15);
        let mut z = self.0;
        z = (z ^ (z >> 30)).wrapping_mul(0xBF58_476D_1CE4_E5B9);
        z = (z ^ (z >> 27)).wrapping_mul(0x94D0_49BB_1331_11EB);
        z ^ (z >> 31)
    }
    fn below(&mut self, n: u64) -> u64 {
        self.next() % n
    }
}

struct Stats {
    ops: [u64; 12],
    errors: u64,
    full_hits: u64,
    longform2: u64,
    longform3: u64,
    max_len: usize,
}

fn sizes(r: &mut Rng, free: usize) -> usize {
    match r.below(10) {
        0 => 0,
        1 => 1,
        2 => free,
        3 => free + 1,
        4 => free.saturating_sub(1),
        5 => (r.below(300)) as usize,
        6 => [127usize, 128, 255, 256, 257][r.below(5) as usize],
        7 => (r.below(5000)) as usize,
        _ => (r.below(40)) as usize,
    }
}

fn fail(seed: u64, step: usize, what: String) -> ! {
    println!("VIOLATION seed={} step={} {}", seed, step, what);
    std::process::exit(1);
}

fn sequence(seed: u64, nops: usize, st: &mut Stats) {
    let mut r = Rng(seed);
    let mut buf = Buffer::default();
    // capacity is discovered, not assumed
    let cap = buf.free();
    let mut model: Vec<u8> = Vec::new(); // model[0] is the first octet of data()
    let mut bookmark: Option<usize> = None; // distance from the END of the data
    for step in 0..nops {
        let free = cap - model.len();
        let op = r.below(11) as usize;
        st.ops[op] += 1;
        match op {
            0 => {
                // push
                let n = sizes(&mut r, free);
                let chunk: Vec<u8> = (0..n).map(|_| r.next() as u8).collect();
                let res = buf.push(&chunk);
                if n <= free {
                    if res.is_err() {
                        fail(seed, step, format!("push({}) refused with {} free", n, free));
                    }
                    let mut m = chunk.clone();
                    m.extend_from_slice(&model);
                    model = m;
                } else {
                    st.errors += 1;
                    if res.is_ok() {
                        fail(seed, step, format!("push({}) accepted with {} free", n, free));
                    }
                }
            }
            1 => {
                let v = r.next() as u8;
                let res = buf.push_u8(v);
                if free >= 1 {
                    if res.is_err() {
                        fail(seed, step, format!("push_u8 refused with {} free", free));
                    }
                    model.insert(0, v);
                } else {
                    st.errors += 1;
                    st.full_hits += 1;
                    if res.is_ok() {
                        fail(seed, step, "push_u8 accepted on a full buffer".into());
                    }
                }
            }
            2 => {
                // push_tag_len
                let tag = r.next() as u8;
                let v = sizes(&mut r, 65535);
                let v = v.min(65535);
                let need = if v < 128 { 2 } else if v < 256 { 3 } else { 4 };
                let res = buf.push_tag_len(tag, v);
                if need <= free {
                    if res.is_err() {
                        fail(seed, step, format!("push_tag_len({}) refused with {} free", v, free));
                    }
                    let mut hdr = vec![tag];
                    if v < 128 {
                        hdr.push(v as u8);
                    } else if v < 256 {
                        hdr.push(0x81);
                        hdr.push(v as u8);
                        st.longform2 += 1;
                    } else {
                        hdr.push(0x82);
                        hdr.push((v >> 8) as u8);
                        hdr.push(v as u8);
                        st.longform3 += 1;
                    }
                    hdr.extend_from_slice(&model);
                    model = hdr;
                } else {
                    st.errors += 1;
                    if res.is_ok() {
                        fail(seed, step, format!("push_tag_len({}) accepted with {} free", v, free));
                    }
                }
            }
            3 => {
                // push_tagged = push + push_tag_len; a failure may leave the data pushed
                let tag = r.next() as u8;
                let n = sizes(&mut r, free).min(70000);
                let chunk: Vec<u8> = (0..n).map(|_| r.next() as u8).collect();
                let before = buf.len();
                let res = buf.push_tagged(tag, &chunk);
                let need = if n < 128 { 2 } else if n < 256 { 3 } else { 4 };
                if n + need <= free {
                    if res.is_err() {
                        fail(seed, step, format!("push_tagged({}) refused with {} free", n, free));
                    }
                    let mut m = vec![tag];
                    if n < 128 {
                        m.push(n as u8);
                    } else if n < 256 {
                        m.push(0x81);
                        m.push(n as u8);
                    } else {
                        m.push(0x82);
                        m.push((n >> 8) as u8);
                        m.push(n as u8);
                    }
                    m.extend_from_slice(&chunk);
                    m.extend_from_slice(&model);
                    model = m;
                } else {
                    st.errors += 1;
                    if res.is_ok() {
                        fail(seed, step, format!("push_tagged({}) accepted with {} free", n, free));
                    }
                    // whatever part was pushed must be the data, in place
                    let now = buf.len();
                    if now != before {
                        if now != before + n {
                            fail(seed, step, format!("push_tagged failure left {} octets, had {}", now, before));
                        }
                        let mut m = chunk.clone();
                        m.extend_from_slice(&model);
                        model = m;
                    }
                }
            }
            4 => {
                // skip(n) then fill the exposed region through data_mut, as the decrypt path does
                let n = sizes(&mut r, free).min(6000);
                buf.skip(n);
                let exposed = n.min(free);
                if buf.len() != model.len() + exposed {
                    fail(seed, step, format!("skip({}) with {} free: len {} expected {}", n, free, buf.len(), model.len() + exposed));
                }
                let fill: Vec<u8> = (0..exposed).map(|_| r.next() as u8).collect();
                buf.data_mut()[..exposed].copy_from_slice(&fill);
                let mut m = fill;
                m.extend_from_slice(&model);
                model = m;
            }
            5 => {
                buf.reset();
                model.clear();
                bookmark = None;
            }
            6 => {
                // bookmark, as the USM encoder uses it: set relative to the current front
                if !model.is_empty() {
                    let delta = (r.below(model.len() as u64 + 1)) as usize;
                    buf.set_bookmark(delta);
                    bookmark = Some(model.len() - delta);
                }
            }
            7 => {
                if let Some(b) = bookmark {
                    if b <= model.len() {
                        let got = buf.get_bookmark();
                        if got != model.len() - b {
                            fail(seed, step, format!("get_bookmark {} expected {}", got, model.len() - b));
                        }
                    }
                }
            }
            8 => {
                // overwrite a window through data_mut (what sign() does)
                if !model.is_empty() {
                    let off = r.below(model.len() as u64) as usize;
                    let n = (r.below(13) as usize).min(model.len() - off);
                    let d = buf.data_mut();
                    for k in 0..n {
                        let v = r.next() as u8;
                        d[off + k] = v;
                        model[off + k] = v;
                    }
                }
            }
            9 => {
                // receive path: the whole storage is handed out uninitialised, a datagram is
                // written at its start and read back through as_slice; the stack is dead then
                buf.reset();
                model.clear();
                bookmark = None;
                let n = sizes(&mut r, cap).min(cap);
                let dgram: Vec<u8> = (0..n).map(|_| r.next() as u8).collect();
                {
                    let raw: &mut [MaybeUninit<u8>] = buf.as_mut();
                    if raw.len() != cap {
                        fail(seed, step, format!("receive area is {} octets, capacity {}", raw.len(), cap));
                    }
                    for (i, b) in dgram.iter().enumerate() {
                        raw[i].write(*b);
                    }
                }
                if buf.as_slice(n) != &dgram[..] {
                    fail(seed, step, "as_slice differs from what was received".into());
                }
            }
            _ => {
                // AsMut<[u8]> view equals data_mut
                let v: &mut [u8] = buf.as_mut();
                if v.len() != model.len() {
                    fail(seed, step, format!("as_mut view {} octets, model {}", v.len(), model.len()));
                }
            }
        }
        // invariants after every step
        if buf.len() != model.len() || buf.free() != cap - model.len() {
            fail(seed, step, format!("len {} free {} model {} cap {}", buf.len(), buf.free(), model.len(), cap));
        }
        if buf.is_empty() != model.is_empty() || buf.is_full() != (model.len() == cap) {
            fail(seed, step, "is_empty / is_full disagree with the model".into());
        }
        if buf.data() != &model[..] {
            fail(seed, step, "data() differs from the model".into());
        }
        if model.len() > st.max_len {
            st.max_len = model.len();
        }
    }
}

fn pool(seed: u64, threads: usize, rounds: usize) {
    // Several threads acquire pooled buffers, fill them with a thread-specific pattern,
    // verify it after yielding, and release them; a buffer must never be shared and
    // always comes back empty.
    let mut hs = Vec::new();
    for t in 0..threads {
        hs.push(std::thread::spawn(move || {
            let mut r = Rng(seed ^ ((t as u64 + 1) * 0x1234_5678_9ABC));
            for round in 0..rounds {
                let mut h = get_buffer_pool().acquire();
                let mut h2 = if r.below(3) == 0 { Some(get_buffer_pool().acquire()) } else { None };
                let buf: &mut Buffer = h.as_mut();
                if !buf.is_empty() {
                    println!("VIOLATION seed={} step={} pooled buffer handed out non-empty ({} octets)", seed, round, buf.len());
                    std::process::exit(1);
                }
                let n = r.below(200) as usize + 1;
                let pat: Vec<u8> = (0..n).map(|i| (t as u8).wrapping_mul(31).wrapping_add(i as u8)).collect();
                buf.push(&pat).unwrap();
                if let Some(ref mut x) = h2 {
                    let b2: &mut Buffer = x.as_mut();
                    if !b2.is_empty() {
                        println!("VIOLATION seed={} step={} second pooled buffer non-empty", seed, round);
                        std::process::exit(1);
                    }
                    b2.push(&[0xEE; 17]).unwrap();
                }
                std::thread::yield_now();
                if buf.data() != &pat[..] {
                    println!("VIOLATION seed={} step={} pooled buffer content changed while held by thread {}", seed, round, t);
                    std::process::exit(1);
                }
            }
        }));
    }
    for h in hs {
        h.join().unwrap();
    }
}

fn main() {
    let a: Vec<String> = std::env::args().collect();
    let mode = a.get(1).map(|s| s.as_str()).unwrap_or("run");
    let mut st = Stats { ops: [0; 12], errors: 0, full_hits: 0, longform2: 0, longform3: 0, max_len: 0 };
    match mode {
        "one" => {
            let seed: u64 = a[2].parse().unwrap();
            let nops: usize = a.get(3).map(|s| s.parse().unwrap()).unwrap_or(60);
            sequence(seed, nops, &mut st);
            println!("OK seed={} ops={} errors={} max_len={}", seed, nops, st.errors, st.max_len);
        }
        "pool" => {
            let seed: u64 = a[2].parse().unwrap();
            let threads: usize = a[3].parse().unwrap();
            let rounds: usize = a[4].parse().unwrap();
            pool(seed, threads, rounds);
            println!("OK pool seed={} threads={} rounds={}", seed, threads, rounds);
        }
        _ => {
            let first: u64 = a[2].parse().unwrap();
            let count: u64 = a[3].parse().unwrap();
            let nops: usize = a.get(4).map(|s| s.parse().unwrap()).unwrap_or(60);
            for s in first..first + count {
                let r = std::panic::catch_unwind(std::panic::AssertUnwindSafe(|| sequence(s, nops, &mut st)));
                if r.is_err() {
                    println!("VIOLATION seed={} step=? panic inside the buffer code (see stderr)", s);
                    std::process::exit(1);
                }
            }
            println!(
                "OK first={} count={} ops={:?} errors={} full_hits={} longform2={} longform3={} max_len={}",
                first, count, &st.ops[..11], st.errors, st.full_hits, st.longform2, st.longform3, st.max_len
            );
        }
    }
}
